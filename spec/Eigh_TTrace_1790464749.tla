---- MODULE Eigh_TTrace_1790464749 ----
EXTENDS Sequences, TLCExt, Eigh, Toolbox, Naturals, TLC

_expression ==
    LET Eigh_TEExpression == INSTANCE Eigh_TEExpression
    IN Eigh_TEExpression!expression
----

_trace ==
    LET Eigh_TETrace == INSTANCE Eigh_TETrace
    IN Eigh_TETrace!trace
----

_inv ==
    ~(
        TLCGet("level") = Len(_TETrace)
        /\
        inst = ([n |-> 3, wn |-> <<-3, 1, 2>>, wden |-> 10000, tau |-> <<1, 2000>>, M |-> <<<<0, 0, -1>>, <<1, 0, 0>>, <<0, 1, 0>>>>, adot |-> <<<<-1, 0, 1>>, <<0, -1, 0>>, <<1, 0, 1>>>>, s |-> 1, id |-> 0])
        /\
        idx = (0)
        /\
        done = (TRUE)
    )
----

_init ==
    /\ done = _TETrace[1].done
    /\ idx = _TETrace[1].idx
    /\ inst = _TETrace[1].inst
----

_next ==
    /\ \E i,j \in DOMAIN _TETrace:
        /\ \/ /\ j = i + 1
              /\ i = TLCGet("level")
        /\ done  = _TETrace[i].done
        /\ done' = _TETrace[j].done
        /\ idx  = _TETrace[i].idx
        /\ idx' = _TETrace[j].idx
        /\ inst  = _TETrace[i].inst
        /\ inst' = _TETrace[j].inst

\* Uncomment the ASSUME below to write the states of the error trace
\* to the given file in Json format. Note that you can pass any tuple
\* to `JsonSerialize`. For example, a sub-sequence of _TETrace.
    \* ASSUME
    \*     LET J == INSTANCE Json
    \*         IN J!JsonSerialize("Eigh_TTrace_1790464749.json", _TETrace)

=============================================================================

 Note that you can extract this module `Eigh_TEExpression`
  to a dedicated file to reuse `expression` (the module in the 
  dedicated `Eigh_TEExpression.tla` file takes precedence 
  over the module `Eigh_TEExpression` below).

---- MODULE Eigh_TEExpression ----
EXTENDS Sequences, TLCExt, Eigh, Toolbox, Naturals, TLC

expression == 
    [
        \* To hide variables of the `Eigh` spec from the error trace,
        \* remove the variables below.  The trace will be written in the order
        \* of the fields of this record.
        done |-> done
        ,idx |-> idx
        ,inst |-> inst
        
        \* Put additional constant-, state-, and action-level expressions here:
        \* ,_stateNumber |-> _TEPosition
        \* ,_doneUnchanged |-> done = done'
        
        \* Format the `done` variable as Json value.
        \* ,_doneJson |->
        \*     LET J == INSTANCE Json
        \*     IN J!ToJson(done)
        
        \* Lastly, you may build expressions over arbitrary sets of states by
        \* leveraging the _TETrace operator.  For example, this is how to
        \* count the number of times a spec variable changed up to the current
        \* state in the trace.
        \* ,_doneModCount |->
        \*     LET F[s \in DOMAIN _TETrace] ==
        \*         IF s = 1 THEN 0
        \*         ELSE IF _TETrace[s].done # _TETrace[s-1].done
        \*             THEN 1 + F[s-1] ELSE F[s-1]
        \*     IN F[_TEPosition - 1]
    ]

=============================================================================



Parsing and semantic processing can take forever if the trace below is long.
 In this case, it is advised to uncomment the module below to deserialize the
 trace from a generated binary file.

\*
\*---- MODULE Eigh_TETrace ----
\*EXTENDS IOUtils, Eigh, TLC
\*
\*trace == IODeserialize("Eigh_TTrace_1790464749.bin", TRUE)
\*
\*=============================================================================
\*

---- MODULE Eigh_TETrace ----
EXTENDS Eigh, TLC

trace == 
    <<
    ([inst |-> [adot |-> <<<<-1, 0, 1>>, <<0, -1, 0>>, <<1, 0, 1>>>>],idx |-> 0,done |-> FALSE]),
    ([inst |-> [n |-> 3, wn |-> <<-3, 1, 2>>, wden |-> 10000, tau |-> <<1, 2000>>, M |-> <<<<0, 0, -1>>, <<1, 0, 0>>, <<0, 1, 0>>>>, adot |-> <<<<-1, 0, 1>>, <<0, -1, 0>>, <<1, 0, 1>>>>, s |-> 1, id |-> 0],idx |-> 0,done |-> TRUE])
    >>
----


=============================================================================

---- CONFIG Eigh_TTrace_1790464749 ----
CONSTANTS
    TN = 3
    TASET = "few"

INVARIANT
    _inv

CHECK_DEADLOCK
    \* CHECK_DEADLOCK off because of PROPERTY or INVARIANT above.
    FALSE

INIT
    _init

NEXT
    _next

CONSTANT
    _TETrace <- _trace

ALIAS
    _expression
=============================================================================
\* Generated on Sat Sep 26 23:19:15 UTC 2026