-------------------------------- MODULE Eigh --------------------------------
(***************************************************************************)
(* C18 - the derivative of the symmetric eigen-decomposition               *)
(* (linalg_utils._eigh and its custom JVP) on exact data.                  *)
(*                                                                         *)
(* A = Q diag(w) Q^T with Q = M / sqrt(s), M integer, M^T M = s I, and an   *)
(* exact rational spectrum w_k = wn_k / wden given in ASCENDING order       *)
(* (LAPACK's order), perturbed along an integer symmetric tangent Adot.    *)
(*                                                                         *)
(* Eigenvectors are defined up to sign (and up to rotations inside a       *)
(* degenerate eigenspace), so the reference is stated for gauge-invariant  *)
(* objects only: for a cluster G of eigenvalues (a single non-degenerate   *)
(* eigenvalue, an exactly degenerate eigenspace, or a bunch of eigenvalues *)
(* closer than tau to each other)                                          *)
(*    P_G    = sum_{i in G} q_i q_i^T                  spectral projector  *)
(*    wdot_G = sum_{i in G} q_i^T Adot q_i            (= wdot_i if G={i})  *)
(*    Pdot_G = sum_{i in G, j notin G}                                     *)
(*               (q_j q_j^T Adot q_i q_i^T + transpose) / (w_i - w_j)      *)
(* From the code's (v, vdot) the same object is assembled as               *)
(*    sum_{i in G} (vdot_i v_i^T + v_i vdot_i^T) ,                          *)
(* which does not depend on the sign/basis LAPACK happens to return.       *)
(*                                                                         *)
(* To keep every number a small rational the oracle works in the exact     *)
(* eigenbasis:  X_G = Q^T Pdot_G Q  has the entries                        *)
(*    X_G[j][i] = X_G[i][j] = B[j][i] / (s (w_i - w_j)),  i in G, j notin G *)
(* and zero elsewhere, with B = M^T Adot M = s Q^T Adot Q.  SpecTheorems   *)
(* checks exhaustively on small instances that this IS the formula above   *)
(* in the original basis (T_Basis) and that it is THE derivative, by the   *)
(* defining identities of a spectral projector differentiated once:        *)
(*    [A, Pdot_G] = [P_G, Adot]            (P_G commutes with A)           *)
(*    Pdot_G P_G + P_G Pdot_G = Pdot_G     (P_G is idempotent)             *)
(*    sum_i (wdot_i P_i + w_i Pdot_i) = Adot   (non-degenerate spectrum)   *)
(*                                                                         *)
(* What the code does differently on purpose: a gap |w_i - w_j| < 1e-5 is  *)
(* replaced by 1e200 (term dropped), an exact 0 by 1.  The property only   *)
(* demands the standard derivative for non-degenerate spectra and finite   *)
(* output for (near) ties.                                                 *)
(*                                                                         *)
(* Entry points: SpecTheorems (exhaustive, small), SpecOracle (instances). *)
(***************************************************************************)
EXTENDS Cplx, Json, IOUtils

Abs(x) == IF x < 0 THEN -x ELSE x
RECURSIVE GCD(_, _)
GCD(a, b) == IF b = 0 THEN a ELSE GCD(b, a % b)

\* exact rationals <<num, den>>, den > 0, gcd-reduced; common factors are cancelled before multiplying
QZero == <<0, 1>>
QInt(k) == <<k, 1>>
QNorm(a, b) ==                      \* a/b with b # 0
  IF a = 0 THEN QZero
  ELSE LET g == GCD(Abs(a), Abs(b))
       IN  IF b < 0 THEN <<(-a) \div g, (-b) \div g>> ELSE <<a \div g, b \div g>>
QNeg(p) == <<-p[1], p[2]>>
QAbs(p) == <<Abs(p[1]), p[2]>>
QAdd(p, q) ==
  LET g  == GCD(p[2], q[2])
      qd == q[2] \div g
      pd == p[2] \div g
  IN  QNorm(p[1] * qd + q[1] * pd, pd * q[2])
QSub(p, q) == QAdd(p, QNeg(q))
QMul(p, q) ==
  IF p[1] = 0 \/ q[1] = 0 THEN QZero
  ELSE LET g1 == GCD(Abs(p[1]), q[2])
           g2 == GCD(Abs(q[1]), p[2])
       IN  <<(p[1] \div g1) * (q[1] \div g2), (p[2] \div g2) * (q[2] \div g1)>>
QInv(p) == IF p[1] > 0 THEN <<p[2], p[1]>> ELSE <<-p[2], -p[1]>>      \* p # 0
QLeq(p, q) == LET g == GCD(p[2], q[2]) IN p[1] * (q[2] \div g) <= q[1] * (p[2] \div g)
QLt(p, q)  == ~QLeq(q, p)
QSumSet(f(_), S) == FoldSet(LAMBDA x, acc : QAdd(f(x), acc), QZero, S)

(***************************************************************************)
(* The instance: [id, n, M, s, wn, wden, adot, tau = <<num, den>>]         *)
(***************************************************************************)
Idx(I)   == 1..I.n
W(I, k)  == QNorm(I.wn[k], I.wden)
Tau(I)   == QNorm(I.tau[1], I.tau[2])
GapQ(I, i, j) == QSub(W(I, i), W(I, j))
BOf(I)   == TLCEval(Congruence(I.M, I.adot))          \* M^T Adot M = s Q^T Adot Q

IsSymI(A) == \A p \in DOMAIN A : \A q \in DOMAIN A : A[p][q] = A[q][p]
Ascending(I) == \A k \in 1..(I.n - 1) : I.wn[k] <= I.wn[k + 1]
ScaledOrth(I) == MatMul(Transpose(I.M), I.M) = [p \in Idx(I) |-> [q \in Idx(I) |-> IF p = q THEN I.s ELSE 0]]

\* clusters: maximal runs of consecutive eigenvalues closer than tau
Near(I, k)   == k < I.n /\ QLt(GapQ(I, k + 1, k), Tau(I))
Leader(I, k) == CHOOSE j \in 1..k : /\ \A m \in j..(k - 1) : Near(I, m)
                                    /\ (j = 1 \/ ~Near(I, j - 1))
Leaders(I)   == {Leader(I, k) : k \in Idx(I)}
GroupOf(I, j) == {k \in Idx(I) : Leader(I, k) = j}
Groups(I)    == {GroupOf(I, j) : j \in Leaders(I)}
\* every pair inside a cluster is closer than tau (a chain a, a+0.6 tau, a+1.2 tau is rejected)
CleanClusters(I) == \A G \in Groups(I) : \A i \in G, j \in G : QLt(QAbs(GapQ(I, i, j)), Tau(I))
NonDegenerate(I) == \A G \in Groups(I) : Cardinality(G) = 1
WellFormed(I) == ScaledOrth(I) /\ Ascending(I) /\ IsSymI(I.adot) /\ CleanClusters(I)

\* s wden A  (integers):  A = Q diag(w) Q^T
ANum(I) == TLCEval([p \in Idx(I) |-> [q \in Idx(I) |->
              ISum(LAMBDA k : I.M[p][k] * I.wn[k] * I.M[q][k], Idx(I))]])

(***************************************************************************)
(* The reference derivative, eigenbasis form.                              *)
(***************************************************************************)
WdotG(I, Bm, G) == QNorm(ISum(LAMBDA i : Bm[i][i], G), I.s)
XG(I, Bm, G) ==
  TLCEval([j \in Idx(I) |-> [i \in Idx(I) |->
     IF (i \in G) = (j \in G) THEN QZero
     ELSE LET a == IF i \in G THEN i ELSE j       \* the member of G
              b == IF i \in G THEN j ELSE i       \* the outsider
          IN  QMul(QNorm(Bm[b][a], I.s), QInv(GapQ(I, a, b)))]])

\* differentiated projector identities in the eigenbasis (A -> diag(w), P_G -> indicator of G, Adot -> B/s)
In(G, k) == IF k \in G THEN 1 ELSE 0
CertComm(I, Bm, G) ==
  LET X == XG(I, Bm, G) IN
  \A j \in Idx(I), i \in Idx(I) :
     QMul(GapQ(I, j, i), X[j][i]) = QMul(QInt(In(G, j) - In(G, i)), QNorm(Bm[j][i], I.s))
CertIdem(I, Bm, G) ==
  LET X == XG(I, Bm, G) IN
  \A j \in Idx(I), i \in Idx(I) : QMul(QInt(In(G, j) + In(G, i)), X[j][i]) = X[j][i]

(***************************************************************************)
(* The same objects in the original basis (used by the theorems only).     *)
(***************************************************************************)
QMat(F(_, _), n) == TLCEval([p \in 1..n |-> [q \in 1..n |-> F(p, q)]])
QMatMul(A, B2, n) == QMat(LAMBDA p, q : QSumSet(LAMBDA k : QMul(A[p][k], B2[k][q]), 1..n), n)
QMatAdd(A, B2, n) == QMat(LAMBDA p, q : QAdd(A[p][q], B2[p][q]), n)
QMatSub(A, B2, n) == QMat(LAMBDA p, q : QSub(A[p][q], B2[p][q]), n)
QMatScale(c, A, n) == QMat(LAMBDA p, q : QMul(c, A[p][q]), n)
QZeroMat(n) == QMat(LAMBDA p, q : QZero, n)
AMat(I)    == QMat(LAMBDA p, q : QNorm(ANum(I)[p][q], I.s * I.wden), I.n)
AdotMat(I) == QMat(LAMBDA p, q : QInt(I.adot[p][q]), I.n)
ProjG(I, G) == QMat(LAMBDA p, q : QNorm(ISum(LAMBDA i : I.M[p][i] * I.M[q][i], G), I.s), I.n)
\* the textbook formula: sum_{i in G, j notin G} (q_j q_j^T Adot q_i q_i^T + transpose) / (w_i - w_j)
PdotOrig(I, Bm, G) ==
  QMat(LAMBDA p, q :
         QSumSet(LAMBDA ij :
                   QMul(QNorm(Bm[ij[2]][ij[1]] * (I.M[p][ij[2]] * I.M[q][ij[1]] + I.M[q][ij[2]] * I.M[p][ij[1]]),
                              I.s * I.s),
                        QInv(GapQ(I, ij[1], ij[2]))),
                 G \X (Idx(I) \ G)), I.n)
\* Q X Q^T
BackTransform(I, X) ==
  QMat(LAMBDA p, q : QSumSet(LAMBDA ji : QMul(QNorm(I.M[p][ji[1]] * I.M[q][ji[2]], I.s), X[ji[1]][ji[2]]),
                             Idx(I) \X Idx(I)), I.n)

(***************************************************************************)
(*                              SpecOracle                                 *)
(***************************************************************************)
VARIABLES idx, done, inst
vars == <<idx, done, inst>>
Insts == ndJsonDeserialize(IOEnv.EIGH_INST)

\* smallest gap between consecutive eigenvalues (compared on the common denominator wden)
MinGap(I) == IF I.n = 1 THEN QInt(1)
             ELSE QNorm(FoldSet(LAMBDA k, acc : IF I.wn[k + 1] - I.wn[k] < acc THEN I.wn[k + 1] - I.wn[k] ELSE acc,
                                I.wn[2] - I.wn[1], 1..(I.n - 1)), I.wden)
OracleOf(I) ==
  LET Bm  == BOf(I)
      ls  == SetToSortSeq(Leaders(I), <)
      wf  == WellFormed(I)
  IN  [id |-> I.id, wellformed |-> wf, nondegenerate |-> NonDegenerate(I),
       anum |-> ANum(I), aden |-> I.s * I.wden, min_gap |-> MinGap(I),
       groups |-> [g \in DOMAIN ls |->
                     LET G == GroupOf(I, ls[g]) IN
                     [members |-> SetToSortSeq(G, <), wdot |-> WdotG(I, Bm, G), X |-> XG(I, Bm, G),
                      cert |-> CertComm(I, Bm, G) /\ CertIdem(I, Bm, G)]]]

InitOracle == idx \in DOMAIN Insts /\ done = FALSE /\ inst = <<>>
EvalOracle == /\ ~done /\ done' = TRUE /\ UNCHANGED <<idx, inst>>
              /\ ndJsonSerialize(IOEnv.EIGH_OUT \o "/" \o ToString(Insts[idx].id) \o ".json",
                                 <<OracleOf(Insts[idx])>>)
SpecOracle == InitOracle /\ [][EvalOracle]_vars

(***************************************************************************)
(*               SpecTheorems: exhaustive over small constants             *)
(***************************************************************************)
CONSTANTS TN, TASET
V3 == {-1, 0, 1}
SymAll == IF TN = 2 THEN {<< <<a, b>>, <<b, c>> >> : a \in V3, b \in V3, c \in V3}
          ELSE {<< <<a, b, e>>, <<b, c, d>>, <<e, d, f>> >> : a \in V3, b \in V3, c \in V3, d \in V3, e \in V3, f \in V3}
SymFew == IF TN = 2 THEN SymAll
          ELSE {<< <<a, b, 1>>, <<b, c, d>>, <<1, d, -a>> >> : a \in V3, b \in V3, c \in V3, d \in {0, 1}}
Tangents == IF TASET = "all" THEN SymAll ELSE SymFew
OrbFams == IF TN = 2
           THEN {<<1, {<< <<1, 0>>, <<0, 1>> >>, << <<0, -1>>, <<1, 0>> >>}>>,
                 <<2, {<< <<1, 1>>, <<1, -1>> >>, << <<1, -1>>, <<-1, -1>> >>}>>}
           ELSE {<<1, {<< <<1, 0, 0>>, <<0, 1, 0>>, <<0, 0, 1>> >>, << <<0, 0, -1>>, <<1, 0, 0>>, <<0, 1, 0>> >>}>>,
                 <<9, {<< <<1, 2, 2>>, <<2, 1, -2>>, <<2, -2, 1>> >>, << <<2, -2, 1>>, <<1, 2, 2>>, <<-2, -1, 2>> >>}>>}
\* spectra (numerators) x denominators; tau = 1/2000: with wden = 1000 a unit step is a gap of 1e-3
\* (resolved), with wden = 10000 it is 1e-4 (a near tie, clustered)
Spectra == IF TN = 2 THEN {<<-1, 2>>, <<0, 1>>, <<1, 1>>, <<3, 4>>}
           ELSE {<<-1, 0, 2>>, <<0, 0, 1>>, <<1, 2, 2>>, <<1, 1, 1>>, <<0, 1, 2>>, <<-2, 1, 2>>}
WDens == {1, 1000, 10000}

InitT == idx = 0 /\ done = FALSE /\ inst \in {[adot |-> x] : x \in Tangents}
PickT == /\ ~done /\ done' = TRUE /\ UNCHANGED idx
         /\ \E fam \in OrbFams, sp \in Spectra, wd \in WDens : \E m \in fam[2] :
              inst' = [id |-> 0, n |-> TN, M |-> m, s |-> fam[1], wn |-> sp, wden |-> wd,
                       adot |-> inst.adot, tau |-> <<1, 2000>>]
SpecTheorems == InitT /\ [][PickT]_vars

T_WellFormed == done => WellFormed(inst)
\* A reassembled from its spectral projectors
T_Resolution == done => AMat(inst) = FoldSet(LAMBDA G, acc :
                           QMatAdd(acc, FoldSet(LAMBDA i, a2 : QMatAdd(a2, QMatScale(W(inst, i), ProjG(inst, {i}), TN), TN),
                                                QZeroMat(TN), G), TN), QZeroMat(TN), Groups(inst))
\* eigenbasis form = textbook formula in the original basis
T_Basis == done => LET Bm == BOf(inst) IN
             \A G \in Groups(inst) : PdotOrig(inst, Bm, G) = BackTransform(inst, XG(inst, Bm, G))
\* ... and it is the derivative of the spectral projector of the cluster
T_Comm == done => LET Bm == BOf(inst) A == AMat(inst) Ad == AdotMat(inst) IN
            \A G \in Groups(inst) :
              LET Pd == PdotOrig(inst, Bm, G) P == ProjG(inst, G) IN
              QMatSub(QMatMul(A, Pd, TN), QMatMul(Pd, A, TN), TN) = QMatSub(QMatMul(P, Ad, TN), QMatMul(Ad, P, TN), TN)
T_Idem == done => LET Bm == BOf(inst) IN
            \A G \in Groups(inst) :
              LET Pd == PdotOrig(inst, Bm, G) P == ProjG(inst, G) IN
              QMatAdd(QMatMul(Pd, P, TN), QMatMul(P, Pd, TN), TN) = Pd
\* non-degenerate spectrum: Adot = sum_i (wdot_i P_i + w_i Pdot_i), the derivative of A = sum_i w_i P_i
T_Spectral == (done /\ \A i \in Idx(inst), j \in Idx(inst) : i # j => W(inst, i) # W(inst, j)) =>
  LET Bm == BOf(inst) IN
  AdotMat(inst) = FoldSet(LAMBDA i, acc :
                     QMatAdd(acc, QMatAdd(QMatScale(WdotG(inst, Bm, {i}), ProjG(inst, {i}), TN),
                                          QMatScale(W(inst, i), PdotOrig(inst, Bm, {i}), TN), TN), TN),
                     QZeroMat(TN), Idx(inst))
\* the cluster projectors sum to the identity, their derivatives to zero; the eigenbasis certificates hold
T_Sums == done => LET Bm == BOf(inst) IN
  /\ FoldSet(LAMBDA G, acc : QMatAdd(acc, PdotOrig(inst, Bm, G), TN), QZeroMat(TN), Groups(inst)) = QZeroMat(TN)
  /\ QSumSet(LAMBDA G : WdotG(inst, Bm, G), Groups(inst)) = QInt(ISum(LAMBDA p : inst.adot[p][p], Idx(inst)))
  /\ \A G \in Groups(inst) : CertComm(inst, Bm, G) /\ CertIdem(inst, Bm, G)
\* probes, each EXPECTED to be violated: degenerate / clustered / non-trivial instances exist
P_AllNonDegenerate == done => NonDegenerate(inst)
P_AllZero == done => \A G \in Groups(inst) : PdotOrig(inst, BOf(inst), G) = QZeroMat(TN)
=============================================================================
