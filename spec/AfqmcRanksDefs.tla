--------------------------- MODULE AfqmcRanksDefs ---------------------------
(***************************************************************************)
(* The sequence of collectives driver.afqmc issues, as a function of the   *)
(* run parameters (see AfqmcRanks.tla for the reading of driver.py).       *)
(***************************************************************************)
EXTENDS Integers, Sequences, FiniteSets, TLC

RECURSIVE Rep(_, _)
Rep(s, k) == IF k = 0 THEN <<>> ELSE s \o Rep(s, k - 1)
Max(a, b) == IF a > b THEN a ELSE b

SRCollsOf(uhf) == IF uhf THEN <<"Gather", "Gather", "Gather", "Scatter", "Scatter", "Scatter">>
                         ELSE <<"Gather", "Gather", "Scatter", "Scatter">>
EqlIterOf(uhf) == <<"Reduce", "Reduce", "Bcast", "Bcast">> \o SRCollsOf(uhf) \o <<"Barrier", "Barrier">>
SmpIterOf(n, nblocks, uhf, rdm) ==
  <<"Gather", "Gather", "Gather">> \o (IF rdm THEN <<"Gather">> ELSE <<>>) \o <<"bcast">> \o SRCollsOf(uhf)
  \o (IF n % Max(nblocks \div 10, 1) = 0 THEN <<"Barrier", "Barrier">> ELSE <<>>)
RECURSIVE SamplingOf(_, _, _, _)
SamplingOf(n, nblocks, uhf, rdm) == IF n = nblocks THEN <<>> ELSE SmpIterOf(n, nblocks, uhf, rdm) \o SamplingOf(n + 1, nblocks, uhf, rdm)
ProgramOf(neql, nblocks, uhf, rdm) ==
  <<"Barrier", "Barrier">> \o Rep(EqlIterOf(uhf), neql) \o <<"Barrier", "Barrier">> \o SamplingOf(0, nblocks, uhf, rdm)
  \o <<"Reduce", "Barrier", "Barrier", "Barrier", "bcast", "bcast", "Barrier">>
=============================================================================
