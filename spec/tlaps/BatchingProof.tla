--------------------------- MODULE BatchingProof ---------------------------
(***************************************************************************)
(* The arithmetic core of Batching.tla's BatchingIsIdentity, proved for    *)
(* ALL population sizes and batch counts (TLAPS) - TLC checks the          *)
(* sequence-level statement only for N <= 6/7.                             *)
(*                                                                         *)
(* Row-major reshape of positions 1..nb*b into nb rows of b columns sends  *)
(* position k to row (k-1) div b + 1, column (k-1) mod b + 1, and          *)
(* Split reads x[(r-1)*b + c]: composing the two is the identity on        *)
(* positions, and row / column stay inside the matrix (RoundTrip); every   *)
(* (row, column) is the image of exactly the position Split reads from     *)
(* (Inverse).                                                              *)
(***************************************************************************)
EXTENDS Integers, TLAPS

Row(k, b) == ((k - 1) \div b) + 1
Col(k, b) == ((k - 1) % b) + 1

LEMMA MulMono == ASSUME NEW b \in Nat \ {0}, NEW x \in Int, NEW y \in Int, x <= y PROVE b * x <= b * y
<1>1. y - x \in Nat
  OBVIOUS
<1>2. b * (y - x) \in Nat
  BY <1>1
<1>3. b * (y - x) = b * y - b * x
  OBVIOUS
<1> QED
  BY <1>2, <1>3

LEMMA MulLess == ASSUME NEW b \in Nat \ {0}, NEW x \in Int, NEW y \in Int, b * x < b * y PROVE x < y
<1>1. CASE y <= x
  <2>1. b * y <= b * x
    BY <1>1, MulMono
  <2> QED
    BY <2>1
<1> QED
  BY <1>1

LEMMA DivMod == ASSUME NEW b \in Nat \ {0}, NEW n \in Nat
                PROVE /\ (n \div b) \in Int /\ (n % b) \in Int
                      /\ n = b * (n \div b) + (n % b)
                      /\ (n % b) >= 0 /\ (n % b) < b
  OBVIOUS

THEOREM RoundTrip ==
  ASSUME NEW b \in Nat \ {0}, NEW nb \in Nat \ {0}, NEW k \in 1..(nb * b)
  PROVE  /\ (Row(k, b) - 1) * b + Col(k, b) = k
         /\ Row(k, b) \in 1..nb
         /\ Col(k, b) \in 1..b
<1>0. nb * b \in Nat /\ k \in Int /\ k >= 1 /\ k <= nb * b
  OBVIOUS
<1>a. (k - 1) \in Nat
  BY <1>0
<1>1. ((k - 1) \div b) \in Int /\ ((k - 1) % b) \in Int
  BY <1>a, DivMod
<1>2. (k - 1) = b * ((k - 1) \div b) + ((k - 1) % b)
  BY <1>a, DivMod
<1>3. ((k - 1) % b) >= 0 /\ ((k - 1) % b) < b
  BY <1>a, DivMod
<1>4. ((k - 1) \div b) >= 0
  <2>1. b * (0 - 1) < b * ((k - 1) \div b)
    BY <1>0, <1>1, <1>2, <1>3
  <2>2. 0 - 1 < ((k - 1) \div b)
    BY <2>1, <1>1, MulLess
  <2> QED
    BY <2>2, <1>1
<1>5. ((k - 1) \div b) < nb
  <2>1. b * ((k - 1) \div b) < b * nb
    BY <1>0, <1>1, <1>2, <1>3
  <2> QED
    BY <2>1, <1>1, MulLess
<1>6. (((k - 1) \div b) + 1 - 1) * b + (((k - 1) % b) + 1) = k
  BY <1>1, <1>2
<1> QED
  BY <1>1, <1>3, <1>4, <1>5, <1>6 DEF Row, Col

LEMMA DivUnique ==
  ASSUME NEW b \in Nat \ {0}, NEW n \in Nat, NEW q \in Int, NEW m \in Int, n = b * q + m, m >= 0, m < b
  PROVE  n \div b = q /\ n % b = m
<1>1. (n \div b) \in Int /\ (n % b) \in Int
  OBVIOUS
<1>2. n = b * (n \div b) + (n % b)
  OBVIOUS
<1>3. (n % b) >= 0 /\ (n % b) < b
  OBVIOUS
<1>4. b * ((n \div b) - q) = m - (n % b)
  <2>1. b * ((n \div b) - q) = b * (n \div b) - b * q
    BY <1>1
  <2> QED
    BY <2>1, <1>1, <1>2
<1>5. (n \div b) - q < 1
  <2>1. b * ((n \div b) - q) < b * 1
    BY <1>4, <1>3, <1>1
  <2> QED
    BY <2>1, <1>1, MulLess
<1>6. 0 - 1 < (n \div b) - q
  <2>1. b * (0 - 1) < b * ((n \div b) - q)
    BY <1>4, <1>3, <1>1
  <2> QED
    BY <2>1, <1>1, MulLess
<1>7. (n \div b) - q = 0
  BY <1>5, <1>6, <1>1
<1>8. n \div b = q
  BY <1>7, <1>1
<1>9. n % b = m
  BY <1>8, <1>2, <1>1
<1> QED
  BY <1>8, <1>9

THEOREM Inverse ==
  ASSUME NEW b \in Nat \ {0}, NEW nb \in Nat \ {0}, NEW r \in 1..nb, NEW c \in 1..b
  PROVE  /\ (r - 1) * b + c \in 1..(nb * b)
         /\ Row((r - 1) * b + c, b) = r
         /\ Col((r - 1) * b + c, b) = c
<1>0. r \in Int /\ c \in Int /\ r >= 1 /\ r <= nb /\ c >= 1 /\ c <= b
  OBVIOUS
<1>1. b * 0 <= b * (r - 1)
  BY <1>0, MulMono
<1>2. b * (r - 1) \in Nat
  BY <1>1, <1>0
<1>3. (r - 1) * b + c - 1 = b * (r - 1) + (c - 1)
  BY <1>0
<1>4. (r - 1) * b + c - 1 \in Nat
  BY <1>2, <1>3, <1>0
<1>5. /\ ((r - 1) * b + c - 1) \div b = r - 1
      /\ ((r - 1) * b + c - 1) % b = c - 1
  BY <1>3, <1>4, <1>0, DivUnique
<1>6. b * (r - 1) <= b * (nb - 1)
  BY <1>0, MulMono
<1>7. b * (nb - 1) = nb * b - b
  OBVIOUS
<1>8. (r - 1) * b + c \in 1..(nb * b)
  BY <1>3, <1>4, <1>6, <1>7, <1>0
<1> QED
  BY <1>5, <1>8, <1>0 DEF Row, Col
=============================================================================
