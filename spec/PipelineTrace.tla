---------------------------- MODULE PipelineTrace ----------------------------
(***************************************************************************)
(* Judge for C16: one hand-over recorded from the real library per JSON    *)
(* line of the file named by env C16_TRACES,                               *)
(*                                                                         *)
(*   [id, stage, pb, files, rb, opt, setup, en]                            *)
(*                                                                         *)
(* with the fields of a snapshot of Pipeline.tla:                          *)
(*   pb     (MeanField/Prep record) what was handed to prep_afqmc          *)
(*   files  (Prep record) what was found on disk afterwards                *)
(*   rb     (ReadBack record) what _prep_afqmc derived                     *)
(*   opt, setup  the options passed and the outcome of _prep_afqmc         *)
(*   en     (Init/FCI/CC records) energy differences in units of 1e-9 Eh   *)
(*   stage  "set" (set-up only) or "measured" (energies recorded as well)  *)
(*                                                                         *)
(* The recorded values are loaded into the state variables of Pipeline.tla *)
(* and the clauses of that module are evaluated on them - the same         *)
(* predicates the reference model is model-checked against.  The verdict   *)
(* is total: it names every failing clause and is written to               *)
(* C16_OUT/<id>.json; the harness reports failing verdicts.                *)
(***************************************************************************)
EXTENDS Pipeline, Json, IOUtils, SequencesExt

Traces == ndJsonDeserialize(IOEnv.C16_TRACES)

VARIABLES idx, done
tvars == <<pb, files, rb, opt, setup, en, stage, idx, done>>

TInit == /\ idx \in DOMAIN Traces
         /\ done = FALSE
         /\ pb = Traces[idx].pb /\ files = Traces[idx].files /\ rb = Traces[idx].rb
         /\ opt = Traces[idx].opt /\ setup = Traces[idx].setup /\ en = Traces[idx].en
         /\ stage = Traces[idx].stage

Verdict ==
  [id       |-> Traces[idx].id,
   in_scope |-> InScope(pb) /\ opt \in Options /\ stage \in {"set", "measured"},
   ok       |-> FailedClauses = {},
   failed   |-> SetToSeq(FailedClauses)]

Judge == /\ ~done
         /\ done' = TRUE
         /\ UNCHANGED <<pb, files, rb, opt, setup, en, stage, idx>>
         /\ ndJsonSerialize(IOEnv.C16_OUT \o "/" \o ToString(Traces[idx].id) \o ".json", <<Verdict>>)

TNext == Judge
TSpec == TInit /\ [][TNext]_tvars
=============================================================================
