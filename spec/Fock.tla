-------------------------------- MODULE Fock --------------------------------
(***************************************************************************)
(* Many-electron states written out explicitly in second quantisation.     *)
(*                                                                         *)
(* Spin-orbitals are numbered 1..2n: p (1..n) is orbital p with spin up,   *)
(* n+p is orbital p with spin down.  A configuration is a set S of         *)
(* occupied spin-orbitals and denotes  |S> = prod_{P in S, increasing}     *)
(* a+_P |vac>  (all alpha creators to the left of all beta creators: the   *)
(* "alpha-string x beta-string" convention).  A state is a function from   *)
(* configurations to Gaussian integers.                                    *)
(*                                                                         *)
(* Everything is a finite sum of products of small integers, so TLC        *)
(* evaluates it exactly; this module is the reference semantics against    *)
(* which the floating-point library is compared.                           *)
(***************************************************************************)
EXTENDS Cplx

Configs(n, N) == kSubset(N, 1..(2 * n))
Below(R, x)   == Cardinality({y \in R : y < x})

ZeroVec(n, N)     == [S \in Configs(n, N) |-> CZ]
BasisVec(n, N, R) == [S \in Configs(n, N) |-> IF S = R THEN CONE ELSE CZ]
VAdd(u, v)        == TLCEval([S \in DOMAIN u |-> CAdd(u[S], v[S])])
VScale(k, v)      == TLCEval([S \in DOMAIN v |-> CScale(k, v[S])])
VSum(f(_), I, n, N) == FoldSet(LAMBDA x, acc : VAdd(f(x), acc), ZeroVec(n, N), I)
Inner(a, b)       == CSum(LAMBDA S : CMul(CConj(a[S]), b[S]), DOMAIN a)   \* <a|b>

(***************************************************************************)
(* Slater determinant of an unrestricted walker:                           *)
(*   |phi> = prod_k (sum_p WU[p][k] a+_{p up}) prod_k (sum_p WD[p][k] a+_{p dn}) |vac> *)
(* whose component on |A u B> is det WU[A,:] * det WD[B,:].                 *)
(***************************************************************************)
SDVec(n, nu, nd, WU, WD) ==
  TLCEval([S \in Configs(n, nu + nd) |->
     LET A == {p \in S : p <= n}
         B == {p - n : p \in S \ A}
     IN  IF Cardinality(A) # nu THEN CZ
         ELSE CMul(CDet(WU, Sorted(A), nu), CDet(WD, Sorted(B), nd))])

(***************************************************************************)
(* Generalised determinant: N spin-orbitals, the k-th being                *)
(* sum_P C[P][k] a+_P with P over all 2n spin-orbitals.                    *)
(***************************************************************************)
GDetVec(n, N, C) == TLCEval([S \in Configs(n, N) |-> CDet(C, Sorted(S), N)])

(***************************************************************************)
(* <T| a+_P a_Q |S> : returns <<sign, S>> for the unique S, or <<0,{}>>.   *)
(* a_Q removes Q from S = R u {Q} (sign (-1)^{#R below Q}), a+_P inserts P  *)
(* into R (sign (-1)^{#R below P}).                                        *)
(***************************************************************************)
Hop(T, P, Q) ==
  IF P \notin T THEN <<0, {}>>
  ELSE LET R == T \ {P} IN
       IF Q \in R THEN <<0, {}>>
       ELSE <<Par(Below(R, Q) + Below(R, P)), R \cup {Q}>>

\* one-body operator  sum_{<<P,Q,c>> in nz} c a+_P a_Q  applied to v
OneBody(nz, v) ==
  TLCEval([T \in DOMAIN v |->
     FoldSet(LAMBDA t, acc :
               LET r == Hop(T, t[1], t[2]) IN
               IF r[1] = 0 THEN acc ELSE CAdd(acc, CScale(r[1], CMul(t[3], v[r[2]]))),
             CZ, nz)])

\* non-zero entries of the spin-conserving operator with integer blocks MU (up), MD (down)
SpinNZ(n, MU, MD) ==
  {<<p, q, CRe(MU[p][q])>> : p \in 1..n, q \in 1..n} \cup
  {<<n + p, n + q, CRe(MD[p][q])>> : p \in 1..n, q \in 1..n}
PruneNZ(nz) == {t \in nz : ~CIsZero(t[3])}
SpinOp(n, MU, MD) == PruneNZ(SpinNZ(n, MU, MD))
\* general (2n x 2n) integer matrix G
GenOp(n, G) == PruneNZ({<<P, Q, CRe(G[P][Q])>> : P \in 1..(2 * n), Q \in 1..(2 * n)})

(***************************************************************************)
(* The Hamiltonian                                                         *)
(*   H = h0 + sum h1[s]_pq a+_ps a_qs                                      *)
(*          + 1/2 sum_g sum L^g_pq L^g_rs a+_ps a+_rt a_st a_qs            *)
(* TwoH(v) = 2 (H - h0) v, integer.  Uses a+a+aa = (a+a)(a+a) - delta a+a, *)
(* so the two-body part is sum_g ( Lg(Lg v) - (Lg.Lg)_one-body v ).        *)
(* TwoHQuartic is the literal quartic sum; the two are checked equal by    *)
(* TLC (theorem config), protecting the oracle from algebra slips.         *)
(***************************************************************************)
TwoH(n, h1U, h1D, L, v) ==
  LET hv  == VScale(2, OneBody(SpinOp(n, h1U, h1D), v))
      lop(g) == SpinOp(n, L[g], L[g])
      l2(g)  == MatMul(L[g], L[g])
      term(g) == VAdd(OneBody(lop(g), OneBody(lop(g), v)),
                      VScale(-1, OneBody(SpinOp(n, l2(g), l2(g)), v)))
  IN  FoldSet(LAMBDA g, acc : VAdd(term(g), acc), hv, DOMAIN L)

\* a+_P a+_R a_S a_Q applied to a basis configuration: <<sign, config>> or <<0,{}>>
Ann(sc, Q) == IF sc[1] = 0 \/ Q \notin sc[2] THEN <<0, {}>>
              ELSE <<sc[1] * Par(Below(sc[2], Q)), sc[2] \ {Q}>>
Cre(sc, P) == IF sc[1] = 0 \/ P \in sc[2] THEN <<0, {}>>
              ELSE <<sc[1] * Par(Below(sc[2], P)), sc[2] \cup {P}>>

TwoHQuartic(n, h1U, h1D, L, v) ==
  LET SOs == 1..(2 * n)
      sp(P) == IF P <= n THEN 0 ELSE 1
      ob(P) == IF P <= n THEN P ELSE P - n
      Lc(g, P, Q) == IF sp(P) = sp(Q) THEN L[g][ob(P)][ob(Q)] ELSE 0
      \* coefficient of a+_P a+_R a_S a_Q
      W(P, Q, R, S) == ISum(LAMBDA g : Lc(g, P, Q) * Lc(g, R, S), DOMAIN L)
      quart == [T \in DOMAIN v |->
                 CSum(LAMBDA S0 :
                   CSum(LAMBDA pq :
                     CSum(LAMBDA rs :
                       LET w == W(pq[1], pq[2], rs[1], rs[2]) IN
                       IF w = 0 THEN CZ ELSE
                       LET r == Cre(Cre(Ann(Ann(<<1, S0>>, pq[2]), rs[2]), rs[1]), pq[1]) IN
                       IF r[1] = 0 \/ r[2] # T THEN CZ ELSE CScale(w * r[1], v[S0]),
                       SOs \X SOs),
                     SOs \X SOs),
                   DOMAIN v)]
  IN  VAdd(VScale(2, OneBody(SpinOp(n, h1U, h1D), v)), quart)

\* <psi| a+_{p s} a_{q s} |psi> numerators for the 1-RDM
RdmNum(n, psi, s, p, q) ==
  LET off == IF s = 1 THEN 0 ELSE n
  IN  Inner(psi, OneBody({<<off + p, off + q, CONE>>}, psi))

(***************************************************************************)
(* The matrix of 2(H-h0) in the configuration basis (integers).            *)
(***************************************************************************)
TwoHMatrix(n, N, h1U, h1D, L) ==
  [S \in Configs(n, N) |-> TwoH(n, h1U, h1D, L, BasisVec(n, N, S))]
=============================================================================
