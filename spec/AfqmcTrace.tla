---------------------------- MODULE AfqmcTrace ----------------------------
(***************************************************************************)
(* Trace validation: is every recorded execution of the real library a     *)
(* behaviour of Afqmc.tla, and do the logged observations satisfy the      *)
(* properties at every step?                                               *)
(*                                                                         *)
(* Input  (env AFQMC_TRACES): ndjson, one event per line, field tid names  *)
(*        the trace; events were recorded by harness/proxies.py.           *)
(* Each trace action is  IsEv(name) /\ <bind logged fields> /\ SpecAction. *)
(* Statements the proxies cannot see (dictionary stores, key splits, the   *)
(* kill counter, driver bookkeeping) are silent actions; they are the only *)
(* action enabled at their program counter, so the search stays linear.    *)
(* Events that do not change the represented state (an overlap             *)
(* recomputation whose result is not needed, a re-orthonormalisation of    *)
(* already orthonormal walkers) are accepted as stuttering, so harmless    *)
(* refactorings are not rejected.                                          *)
(*                                                                         *)
(* Acceptance is recorded per trace in TLC registers (highest consumed     *)
(* line, spec state there, first property violation) and written by the    *)
(* POSTCONDITION to AFQMC_VERDICTS; run with -workers 1.                   *)
(***************************************************************************)
EXTENDS Afqmc, Json, IOUtils, TLCExt

AllEvents == ndJsonDeserialize(IOEnv.AFQMC_TRACES)
Tids == {AllEvents[i].tid : i \in DOMAIN AllEvents}
Tr == [t \in Tids |-> SelectSeq(AllEvents, LAMBDA e : e.tid = t)]
WSeq == CHOOSE s \in [1..N -> Walkers] : \A i, j \in 1..N : i # j => s[i] # s[j]   \* fixed walker order
WIdx(w) == CHOOSE i \in 1..N : WSeq[i] = w

VARIABLES tid, l, obs
tvars == <<vars, tid, l, obs>>

NoObs == [kind |-> "none", coh |-> TRUE, wdom |-> TRUE, shiftok |-> TRUE, killed_ok |-> TRUE, alive0ok |-> TRUE, shiftinit |-> TRUE]

Ev == Tr[tid][l]
IsEv(n) == l <= Len(Tr[tid]) /\ Tr[tid][l].ev = n
Consume == l' = l + 1 /\ UNCHANGED tid
Silent  == UNCHANGED <<tid, l, obs>>
Bits(b) == [w \in Walkers |-> b[WIdx(w)]]

TInit == /\ Init
         /\ tid \in Tids /\ l = 1 /\ obs = NoObs
         /\ opts = [ad_mode |-> "none", orbital_rotation |-> TRUE, do_sr |-> TRUE]   \* rebound at every Enter

\* ---- observable actions
TEnter ==      \* the driver's call of a sampler entry point; the logged entry point and block structure must be
               \* what the option ladder / driver prescribe for this phase
  /\ IsEv("Enter") /\ Consume /\ obs' = NoObs
  /\ phase = "sampling"
  /\ \E o \in OptionSpace :
       /\ (phase = "sampling" => Select(o) = Ev.entry)
       \* when the harness knows the options the driver was given, the entry point must be the one the option ladder
       \* prescribes for THESE options (not merely for some options)
       /\ (Ev.has_opts => o = [ad_mode |-> Ev.ad_mode, orbital_rotation |-> Ev.orbital_rotation, do_sr |-> Ev.do_sr])
       /\ opts' = o
       /\ pc = "d_call"
       /\ LET e == IF phase = "eql" THEN "plain" ELSE Select(o)
              b == IF phase = "eql" THEN [steps |-> NStepsEql, ene |-> NEneEql, sr |-> NSrEql]
                                    ELSE [steps |-> NSteps, ene |-> NEne, sr |-> NSr]
          IN /\ Ev.entry = e /\ Ev.steps = b.steps /\ Ev.ene = b.ene /\ Ev.sr = b.sr
             /\ entry' = e /\ bs' = b
             /\ pc' = IF HasOptimize(e) THEN "opt" ELSE IF HasBuild(e) THEN "build" ELSE "entry_refresh"
       /\ sr' = 1 /\ ene' = 1 /\ step' = 1 /\ keySplits' = 0 /\ measures' = 0 /\ hist' = <<>>
       /\ shiftSrc' = "carried"
       /\ UNCHANGED <<phase, iter, stale, alive, shiftOK, nKilled>>

TOpt   == IsEv("Opt") /\ Consume /\ obs' = NoObs /\ Optimize

TOvlp  == /\ IsEv("Ovlp") /\ Consume /\ obs' = NoObs
          /\ \/ EntryRefresh \/ BlockRefresh \/ SRRefresh
             \/ (pc \notin {"entry_refresh", "refresh", "sr_refresh"} /\ UNCHANGED vars)

TProp  == /\ IsEv("Prop") /\ Consume
          /\ Step
          /\ alive' = Bits(Ev.alive1)                           \* which walkers died is read from the log
          /\ obs' = [kind |-> "Prop", coh |-> Ev.coh, wdom |-> Ev.wdom, shiftok |-> Ev.shiftok,
                     killed_ok |-> TRUE, alive0ok |-> (Bits(Ev.alive0) = alive),
                     \* the first step of a sampler call must see shift = e_estimate (measured), i.e. not a carried one
                     shiftinit |-> (shiftSrc = "estimate" => Ev.shift_is_est)]

TQR    == /\ IsEv("QR") /\ Consume /\ obs' = NoObs
          /\ \/ BlockQR \/ DriverQR
             \/ (pc \notin {"qr", "d_qr"} /\ ~Ev.changed /\ UNCHANGED vars)   \* idempotent re-orthonormalisation

TEnergy == /\ IsEv("Energy") /\ Consume /\ obs' = NoObs
           /\ \/ Measure
              \/ (pc = "d_init" /\ UNCHANGED vars)              \* init_prop_data measures the initial walkers

TSRLocal == /\ IsEv("SRLocal") /\ Consume
            /\ SRLocal
            /\ obs' = [NoObs EXCEPT !.kind = "SR", !.wdom = Ev.wdom,
                                    !.alive0ok = (Bits(Ev.alive0) = alive /\ Bits(Ev.alive1) = alive')]

TSRGlobal == /\ IsEv("SRGlobal") /\ Consume
             /\ DriverSRGlobal
             /\ obs' = [NoObs EXCEPT !.kind = "SR", !.wdom = Ev.wdom,
                                     !.alive0ok = (Bits(Ev.alive0) = alive /\ Bits(Ev.alive1) = alive')]

TExit  == /\ IsEv("Exit") /\ Consume
          /\ phase = "sampling"
          /\ Ev.entry = entry
          /\ Return
          /\ obs' = [NoObs EXCEPT !.kind = "Exit", !.killed_ok = Ev.killed_ok]

\* Reverse-mode differentiation re-executes the checkpointed forward blocks during the backward pass
\* (jax.checkpoint): the re-materialised steps show up again after Exit.  They change nothing in the
\* represented state (stuttering), but their logged coherence / weight bits are still judged.
TRemat == /\ pc = "d_reduce" /\ opts.ad_mode \in {"reverse", "2rdm"}
          /\ l <= Len(Tr[tid]) /\ Ev.ev \in {"Prop", "QR", "Energy", "Ovlp", "SRLocal", "Opt", "Backward"}
          /\ Consume /\ UNCHANGED vars
          /\ obs' = IF Ev.ev = "Prop"
                    THEN [NoObs EXCEPT !.kind = "Prop", !.coh = Ev.coh, !.wdom = Ev.wdom]
                    ELSE NoObs

\* ---- silent actions (no event; unique enabled action at their pc)
TSilent == /\ Silent
           /\ \/ DriverInit \/ Build \/ KeySplit \/ KillCount \/ ShiftRelax \/ Normalise
              \/ DriverReduce \/ DriverSave \/ DriverEstimate
              \* the driver builds its own (unobserved) sampler object for equilibration
              \/ (phase = "eql" /\ (DriverCall \/ Return))
              \/ (~IsEv("Ovlp") /\ (EntryRefresh \/ BlockRefresh \/ SRRefresh))

TNext == TRemat \/ TEnter \/ TOpt \/ TOvlp \/ TProp \/ TQR \/ TEnergy \/ TSRLocal \/ TSRGlobal \/ TExit \/ TSilent

TSpec == TInit /\ [][TNext]_tvars

(***************************************************************************)
(* Bookkeeping in TLC registers (single worker).                           *)
(*   tid            highest line consumed + 1                              *)
(*   1000 + tid     spec state at that point                               *)
(*   2000 + tid     first property violation <<line, name>> (or <<0,"">>)  *)
(***************************************************************************)
ASSUME \A t \in Tids : TLCSet(t, 0) /\ TLCSet(1000 + t, <<>>) /\ TLCSet(2000 + t, <<0, "">>)

BadName ==
  IF obs.kind = "Prop" /\ ~obs.coh THEN "ReadCoherent"
  ELSE IF ~obs.wdom THEN "WeightDomain"
  ELSE IF ~obs.alive0ok THEN "AliveBitsConsistent"
  ELSE IF obs.kind = "Prop" /\ AnyAlive(alive) /\ ~obs.shiftok THEN "ShiftFiniteWhileAlive"
  ELSE IF ~obs.shiftinit THEN "ShiftInitialised"
  ELSE IF ~obs.killed_ok THEN "KilledFraction"
  ELSE IF pc = "ret" /\ hist # Expected(bs, HasSR(entry)) THEN "SameEstimator"
  ELSE ""

Track ==
  /\ IF l > TLCGet(tid)
     THEN TLCSet(tid, l) /\ TLCSet(1000 + tid, [pc |-> pc, phase |-> phase, iter |-> iter, sr |-> sr,
                                                ene |-> ene, step |-> step, entry |-> entry, stale |-> stale])
     ELSE TRUE
  /\ IF BadName # "" /\ TLCGet(2000 + tid)[1] = 0 THEN TLCSet(2000 + tid, <<l - 1, BadName>>) ELSE TRUE

Verdicts ==
  [t \in Tids |-> [tid |-> t, len |-> Len(Tr[t]), reached |-> TLCGet(t) - 1,
                   at |-> TLCGet(1000 + t), bad |-> TLCGet(2000 + t)]]
WriteVerdicts ==
  ndJsonSerialize(IOEnv.AFQMC_VERDICTS, [i \in 1..Cardinality(Tids) |->
                     Verdicts[CHOOSE t \in Tids : Cardinality({u \in Tids : u < t}) = i - 1]])
=============================================================================
