--------------------------- MODULE AfqmcSchedules ---------------------------
(***************************************************************************)
(* Spec -> code direction for the run-level specification: emits, for each *)
(* requested (entry point, block structure), the canonical action schedule *)
(* Expected(bs, HasSR(entry)) that Afqmc.tla's invariant SameEstimator     *)
(* certifies every entry point follows.  The harness steps the library's   *)
(* PUBLIC single-step API along this schedule (with an explicit overlap    *)
(* refresh after every walker modification) and compares with what the     *)
(* sampler entry point itself returned (C08, second clause; C12).          *)
(***************************************************************************)
EXTENDS AfqmcDefs, Json, IOUtils

Reqs == ndJsonDeserialize(IOEnv.SCHED_REQ)

VARIABLES idx, done
svars == <<idx, done>>
SInit == idx \in DOMAIN Reqs /\ done = FALSE
Emit  == /\ ~done /\ done' = TRUE /\ UNCHANGED idx
         /\ LET r == Reqs[idx]
                b == [steps |-> r.steps, ene |-> r.ene, sr |-> r.sr]
                e == Select([ad_mode |-> r.ad_mode, orbital_rotation |-> r.orbital_rotation, do_sr |-> r.do_sr])
            IN ndJsonSerialize(IOEnv.SCHED_OUT \o "/" \o ToString(r.id) \o ".json",
                 <<[id |-> r.id, entry |-> e, optimize |-> HasOptimize(e), build |-> HasBuild(e),
                    with_sr |-> HasSR(e), sched |-> Expected(b, HasSR(e))]>>)
SSpec == SInit /\ [][Emit]_svars
=============================================================================
