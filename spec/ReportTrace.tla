---------------------------- MODULE ReportTrace ----------------------------
(***************************************************************************)
(* Trace validation of rank 0's bookkeeping in driver.afqmc against        *)
(* Report.tla.  The harness (harness/report.py) records, in program order, *)
(* the calls rank 0 really makes - the root gathers with every rank's send *)
(* buffer, numpy.savetxt, stat_utils.reject_outliers / blocking_analysis   *)
(* with arguments and results, the large-deviation reduce, the return      *)
(* value - plus, from independent observation points, what every rank's    *)
(* sampler call returned (proxies: Exit energy, weights) and whether the   *)
(* differentiated observable was finite (wrapped jvp / vjp).               *)
(*                                                                         *)
(* Floating-point values are replaced by identifiers (rank in the sorted   *)
(* list of all distinct values of the run; -999 = non-finite, -1 = None):  *)
(* this module decides WHICH value went WHERE and WHICH rows were handed   *)
(* to WHICH routine; that the routines compute the right numbers on those  *)
(* rows is C19's function-level binding (StatsJudge.tla), applied by the   *)
(* harness to the very arrays recorded here.                               *)
(*                                                                         *)
(* Every trace action is  IsEv(name) /\ Report action with the logged      *)
(* arguments; mismatching data do not block the replay (the spec state     *)
(* follows Report.tla) but are recorded as the first failing clause.       *)
(***************************************************************************)
EXTENDS Report, Json, IOUtils, TLCExt

Tr == ndJsonDeserialize(IOEnv.REPORT_TRACE)

CONSTANTS ZeroId        \* identifier of 0.0 (what "no error bar" is returned as)

VARIABLES l, g, bad
tvars == <<vars, l, g, bad>>

Ev == Tr[l]
IsEv(name) == l <= Len(Tr) /\ Tr[l].ev = name
Consume == l' = l + 1

Raw(x) == [w |-> x[1], e |-> x[2], o |-> x[3], nrm |-> x[4]]
Proj3(rows) == [i \in 1..Len(rows) |-> <<rows[i].w, rows[i].e, rows[i].o>>]
ProjN(rows) == [i \in 1..Len(rows) |-> <<rows[i].w, rows[i].nrm>>]
Seq2(f) == [i \in 1..Len(f) |-> f[i]]      \* JSON arrays arrive as sequences already; normalises tuples
ColIdx(c) == IF c = "e" THEN 1 ELSE 2      \* 0-based column of (weight, energy, observable)
First(cands) == IF \E i \in 1..Len(cands) : cands[i][1]
                THEN cands[CHOOSE i \in 1..Len(cands) : cands[i][1] /\ \A j \in 1..(i - 1) : ~cands[j][1]][2]
                ELSE ""

TInit == Init /\ l = 1 /\ g = 0 /\ bad = ""

\* ---- one sampler call per rank: what the ranks obtained (independent observation points)
TSample ==
  /\ IsEv("Sample") /\ Consume /\ g' = 0
  /\ SampleWith([r \in Ranks |-> Raw(Ev.raw[r])])
  /\ bad' = First(<< <<~Ev.est_ok, "EstimateTracksBlocks">> >>)

\* ---- the root gathers, in the order of the code: weights, energies, observables(, rdm samples)
Field(k) == <<"w", "e", "o", "nrm">>[k]
NGathers == IF HasRdm THEN 4 ELSE 3
TGather ==
  /\ IsEv("Gather") /\ Consume
  /\ pc = "gather" /\ g < NGathers
  /\ g' = g + 1
  /\ LET f == Field(g + 1)
         sentOK == \A r \in Ranks : Ev.send[r] = pending[r][f]
         recvOK == \A r \in Ranks : Ev.recv[r] = Ev.send[r]
     IN  /\ bad' = First(<< <<Ev.what # f, "GatherOrder">>, <<~sentOK, "SentIsSamplerOutput">>, <<~recvOK, "RankOrdered">>,
                          <<g + 1 = NGathers /\ ~Ev.be_ok, "BlockEnergyIsWeightedMean">> >>)
         /\ IF g + 1 = NGathers THEN GatherWith(<<Ev.be, 1>>) ELSE UNCHANGED vars

\* ---- e_estimate update, snapshot, reconfiguration: not visible to rank 0's bookkeeping (silent)
TUpdate == /\ pc = "update" /\ UpdateWith(<<0, 1>>) /\ UNCHANGED <<l, g, bad>>

\* ---- the periodic dump: two blocking analyses of the filled prefix, then samples_raw.dat
Prefix == SubSeq(table, 1, (n + 1) * NRanks)
TDumpBlocking ==
  /\ IsEv("Blocking") /\ Consume /\ pc = "dump" /\ g \in {NGathers, NGathers + 1}
  /\ g' = g + 1
  /\ LET f == IF g = NGathers THEN "e" ELSE "o" IN
     bad' = First(<< <<Ev.w # Col(Prefix, "w") \/ Ev.x # Col(Prefix, f), "DumpAnalysesFilledPrefix">>,
                     <<Ev.neql # 0, "DumpAnalysesFilledPrefix">> >>)
  /\ UNCHANGED vars
TDump ==
  /\ IsEv("Savetxt") /\ Consume /\ pc = "dump" /\ g = NGathers + 2
  /\ Dump /\ g' = 0
  /\ bad' = First(<< <<Ev.file # "samples_raw.dat", "RawIsWholeBlocks">>, <<Ev.rows # Proj3(rawFile'), "RawIsWholeBlocks">> >>)

\* ---- post-processing
TReduce ==
  /\ IsEv("Reduce") /\ Consume /\ Reduce /\ g' = 0
  /\ bad' = First(<< <<\E r \in Ranks : Ev.send[r] # largeLocal[r], "LargeDeviationsCounted">>,
                     <<Ev.recv # largeTotal', "LargeDeviationsCounted">> >>)
TPostRaw ==
  /\ IsEv("Savetxt") /\ Consume /\ PostRaw /\ g' = 0
  /\ bad' = First(<< <<Ev.file # "samples_raw.dat" \/ Ev.rows # Proj3(table), "RawComplete">> >>)
TClean ==
  /\ IsEv("Reject") /\ Consume /\ pc = "clean" /\ g' = 1
  /\ CleanWith(Ev.mask)
  /\ bad' = First(<< <<Ev.rows # Proj3(table), "CleanIsSelection(input is not the whole table)">>,
                     <<Ev.col # ColIdx(OutCol), "CleanIsSelection(wrong column)">>,
                     <<~Ev.m_default, "CleanIsSelection(m is not 10)">>,
                     <<Ev.out # Proj3(cleanRows'), "CleanIsSelection(returned rows are not the kept rows)">> >>)
TCleanFile ==
  /\ IsEv("Savetxt") /\ Consume /\ pc = "energy" /\ g = 1 /\ g' = 2
  /\ bad' = First(<< <<Ev.file # "samples.dat" \/ Ev.rows # Proj3(cleanRows), "CleanFileIsKeptRows">> >>)
  /\ UNCHANGED vars
ResOf(e) == [e |-> e.mean, err2 |-> IF e.err = -1 THEN <<ZeroId, 1>> ELSE <<e.err, 1>>]
TEnergy ==
  /\ IsEv("Blocking") /\ Consume /\ pc = "energy" /\ g = 2 /\ g' = 0
  /\ EnergyWith(ResOf(Ev))
  /\ bad' = First(<< <<Ev.w # Col(cleanRows, "w") \/ Ev.x # Col(cleanRows, "e") \/ Ev.neql # 0, "ReportedMean(not the kept rows)">> >>)
TObs ==
  /\ IsEv("Blocking") /\ Consume /\ pc = "obs" /\ g' = 0
  /\ ObsWith(Ev.mean)
  /\ bad' = First(<< <<Ev.w # Col(cleanRows, "w") \/ Ev.x # Col(cleanRows, "o") \/ Ev.neql # 0, "ReportedObservable(not the kept rows)">> >>)
TRdm ==
  /\ IsEv("Reject") /\ Consume /\ pc = "rdm" /\ g' = 1
  /\ RdmWith(Ev.mask)
  /\ bad' = First(<< <<Ev.rows # ProjN(cleanRows), "RdmFromKeptRowsOnly">>, <<Ev.col # 1 \/ ~Ev.m_default, "RdmFromKeptRowsOnly">> >>)
\* the noise analysis and the file with the averaged density matrix: judged numerically by the harness (bit)
TRdmNoise ==
  /\ IsEv("Blocking") /\ Consume /\ pc = "done" /\ g = 1 /\ g' = 2 /\ HasRdm
  /\ bad' = First(<< <<~Ev.avg_ok, "RdmIsWeightedMeanOfKeptSamples">> >>)
  /\ UNCHANGED vars
TReturn ==
  /\ IsEv("Return") /\ Consume /\ pc = "done" /\ g' = 9
  /\ bad' = First(<< <<Ev.e # result.e, "ReturnedEnergyIsReportedMean">>, <<Ev.err # result.err2[1], "ReturnedErrorIsReportedError">>,
                     <<~Ev.all_ranks_same, "AllRanksReturnTheSame">>, <<Ev.large # largeTotal, "LargeDeviationsCounted">> >>)
  /\ UNCHANGED vars

TNext == TSample \/ TGather \/ TUpdate \/ TDumpBlocking \/ TDump \/ TReduce \/ TPostRaw \/ TClean \/ TCleanFile
         \/ TEnergy \/ TObs \/ TRdm \/ TRdmNoise \/ TReturn
TSpec == TInit /\ [][TNext]_tvars

\* design-level invariants are evaluated on every state of the replay as well
StateBad ==
  IF ~RankOrdered THEN "RankOrdered"
  ELSE IF ~NoNaNReported THEN "NoNaNReported"
  ELSE IF ~TwoRdmObservableIsTrial THEN "TwoRdmObservableIsTrial"
  ELSE IF ~RawIsWholeBlocks THEN "RawIsWholeBlocks"
  ELSE IF ~RawComplete THEN "RawComplete"
  ELSE IF ~RawFresh THEN "RawFresh"
  ELSE IF ~DumpSchedule THEN "DumpSchedule"
  ELSE IF ~LargeDeviationsCounted THEN "LargeDeviationsCounted"
  ELSE IF ~RdmFromKeptRowsOnly THEN "RdmFromKeptRowsOnly"
  ELSE ""

(* registers: 1 = highest line consumed + 1; 2 = spec state there; 3 = first failing clause <<line, name>> *)
ASSUME TLCSet(1, 0) /\ TLCSet(2, <<>>) /\ TLCSet(3, <<0, "">>)
Track ==
  /\ IF l > TLCGet(1) THEN TLCSet(1, l) /\ TLCSet(2, [pc |-> pc, n |-> n, g |-> g, rows |-> Len(table)]) ELSE TRUE
  /\ LET b == IF bad # "" THEN bad ELSE StateBad IN
     IF b # "" /\ TLCGet(3)[1] = 0 THEN TLCSet(3, <<l - 1, b>>) ELSE TRUE
WriteVerdict ==
  ndJsonSerialize(IOEnv.REPORT_VERDICT,
                  << [len |-> Len(Tr), reached |-> TLCGet(1) - 1, at |-> TLCGet(2), bad |-> TLCGet(3)] >>)
=============================================================================
