------------------------------ MODULE BatchingDefs ----------------------------
(***************************************************************************)
(* C14: batched evaluation = reshape(n_batch, batch) o scan over batches o *)
(* vmap inside a batch o reshape back, as an index map.                    *)
(*                                                                         *)
(* The population is the sequence 1..N of walker tags; an elementwise      *)
(* routine f is modelled by its action on tags.  The library reshapes in   *)
(* row-major order (wavefunctions.py calc_*: walkers.reshape(n_batch,      *)
(* batch_size, ...), propagation.py _apply_trotprop likewise), scans the   *)
(* first axis, maps the second, and reshapes the stacked result back.      *)
(*                                                                         *)
(* Theorems (TLC, exhaustive for all N <= MaxN, all divisors, all          *)
(* permutations):                                                          *)
(*   BatchingIsIdentity : Join(MapBatches(f, Split(x))) = Map(f, x)        *)
(*   Equivariant        : Batched(f, x o pi) = Batched(f, x) o pi          *)
(* Each explored state (N, nb, pi) is also written out; the harness        *)
(* replays it into the real measurement and propagation routines.          *)
(***************************************************************************)
EXTENDS Integers, Sequences, FiniteSets, Json, IOUtils, TLC

Divisors(n) == {d \in 1..n : n % d = 0}
Perms(n) == {p \in [1..n -> 1..n] : \A i, j \in 1..n : i # j => p[i] # p[j]}

\* row-major reshape of a length-N sequence into nb rows of b = N / nb
Split(x, nb) == LET b == Len(x) \div nb IN [r \in 1..nb |-> [c \in 1..b |-> x[(r - 1) * b + c]]]
Join(m)      == LET nb == Len(m)  b == Len(m[1]) IN [k \in 1..(nb * b) |-> m[((k - 1) \div b) + 1][((k - 1) % b) + 1]]
Map(f(_), x) == [k \in 1..Len(x) |-> f(x[k])]
MapBatches(f(_), m) == [r \in 1..Len(m) |-> [c \in 1..Len(m[r]) |-> f(m[r][c])]]   \* scan rows, vmap columns
Batched(f(_), x, nb) == Join(MapBatches(f, Split(x, nb)))
Compose(x, p) == [k \in 1..Len(x) |-> x[p[k]]]                                      \* x o pi

\* an arbitrary injective per-walker routine on tags (so that a misplaced element is visible)
F(t) == 7 * t + 3
Id(k) == [i \in 1..k |-> i]
=============================================================================
