------------------------------- MODULE Ladder -------------------------------
(***************************************************************************)
(* Judge for convergence ladders recorded from the implementation          *)
(* (finite-difference step ladders C02/C06/C17, time-step ladders C04/C05).*)
(*                                                                         *)
(* A trace is a record                                                     *)
(*   [id, errs, floor, lo, hi, first, bound]                               *)
(* errs  : residuals |value(step_k) - reference| as fixed-point naturals   *)
(*         (<= 10^8), coarsest step first, each step half the previous   *)
(* floor : residuals at or below it carry no information (round-off)       *)
(* lo,hi : <<num, den>> rationals: each halving from index `first` on must *)
(*         shrink the residual by a factor within [lo, hi] (hi = <<0,1>>   *)
(*         means no upper bound)                                           *)
(* bound : the last residual must be <= bound                              *)
(* ceil  : a halving whose finer residual is above it is outside the       *)
(*         asymptotic regime and is not judged                             *)
(* The verdict names the failing clause; the harness reports it.           *)
(***************************************************************************)
EXTENDS Integers, Sequences, Json, IOUtils, TLC

Traces == ndJsonDeserialize(IOEnv.LADDER_TRACES)

RatioOK(t, k) ==
  \/ t.errs[k + 1] > t.ceil       \* the finer step is not yet in the asymptotic regime: nothing to conclude
  \/ t.errs[k] <= t.floor
  \/ t.errs[k + 1] <= t.floor
  \/ /\ t.errs[k + 1] * t.lo[1] <= t.errs[k] * t.lo[2]
     /\ (t.hi[1] = 0 \/ t.errs[k + 1] * t.hi[1] >= t.errs[k] * t.hi[2])

BadRatios(t) == {k \in t.first..(Len(t.errs) - 1) : ~RatioOK(t, k)}
FinalOK(t)   == t.errs[Len(t.errs)] <= t.bound
NonIncreasing(t) == \A k \in t.first..(Len(t.errs) - 1) :
                       t.errs[k + 1] <= t.errs[k] \/ t.errs[k + 1] <= t.floor

Verdict(t) ==
  [id |-> t.id,
   ok |-> BadRatios(t) = {} /\ FinalOK(t),
   bad_ratio_at |-> IF BadRatios(t) = {} THEN 0 ELSE CHOOSE k \in BadRatios(t) : \A j \in BadRatios(t) : k <= j,
   final_ok |-> FinalOK(t),
   informative |-> \E k \in t.first..(Len(t.errs) - 1) :
                      t.errs[k] > t.floor /\ t.errs[k + 1] > t.floor /\ t.errs[k + 1] <= t.ceil]

VARIABLES idx, done
vars == <<idx, done>>
Init == idx \in DOMAIN Traces /\ done = FALSE
Judge == /\ ~done /\ done' = TRUE /\ UNCHANGED idx
         /\ ndJsonSerialize(IOEnv.LADDER_OUT \o "/" \o ToString(Traces[idx].id) \o ".json",
                            <<Verdict(Traces[idx])>>)
Next == Judge
Spec == Init /\ [][Next]_vars
=============================================================================
