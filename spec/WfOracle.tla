------------------------------ MODULE WfOracle ------------------------------
(***************************************************************************)
(* Exact oracle for the measurement kernels (C01, C02, C03, C11, C13, C15).*)
(*                                                                         *)
(* Each instance (one JSON line of the file named by env ORACLE_INST) carries  *)
(* a Hamiltonian (h0 is handled by the harness; h1u, h1d, chol integer     *)
(* matrices), a trial (see Trials.tla) and a list of walkers.  One TLC     *)
(* state per instance; the Eval action computes, from the second-quantised *)
(* definitions only,                                                       *)
(*    ov   = <psi|phi>                      (times TrialScale)             *)
(*    e2   = <psi| 2(H - h0) |phi>          (times TrialScale)             *)
(*    fb_g = <psi| L_g |phi>                (times TrialScale)             *)
(* and optionally nrm = <psi|psi>, rdm[s][p][q] = <psi|a+_ps a_qs|psi>,    *)
(* and writes them to ORACLE_OUT/<id>.json.  The harness compares the          *)
(* library's floating-point numbers with these exact Gaussian integers.    *)
(***************************************************************************)
EXTENDS Trials, Json, IOUtils

Insts == ndJsonDeserialize(IOEnv.ORACLE_INST)

VARIABLES idx, done
vars == <<idx, done>>

WalkerResult(n, nu, nd, I, psi, w) ==
  LET phi  == SDVec(n, nu, nd, w.wup, w.wdn)
      ov   == Inner(psi, phi)
      e2   == IF I.want_e THEN Inner(psi, TwoH(n, I.h1u, I.h1d, I.chol, phi)) ELSE CZ
      fb   == IF I.want_fb
              THEN [g \in DOMAIN I.chol |->
                      Inner(psi, OneBody(SpinOp(n, I.chol[g], I.chol[g]), phi))]
              ELSE <<>>
  IN  [ov |-> ov, e2 |-> e2, fb |-> fb]

Result(I) ==
  LET n   == I.norb
      nu  == I.nup
      nd  == I.ndn
      psi == TrialVec(n, nu, nd, I.trial)
      ws  == [k \in DOMAIN I.walkers |-> WalkerResult(n, nu, nd, I, psi, I.walkers[k])]
      nrm == IF I.want_rdm THEN Inner(psi, psi) ELSE CZ
      rdm == IF I.want_rdm
             THEN [s \in 1..2 |-> [p \in 1..n |-> [q \in 1..n |-> RdmNum(n, psi, s, p, q)]]]
             ELSE <<>>
  IN  [id |-> I.id, scale |-> TrialScale(I.trial, nu, nd), walkers |-> ws, nrm |-> nrm, rdm |-> rdm]

Init == idx \in DOMAIN Insts /\ done = FALSE

Eval == /\ ~done
        /\ done' = TRUE
        /\ UNCHANGED idx
        /\ ndJsonSerialize(IOEnv.ORACLE_OUT \o "/" \o ToString(Insts[idx].id) \o ".json",
                           <<Result(Insts[idx])>>)

Next == Eval
Spec == Init /\ [][Next]_vars
=============================================================================
