------------------------------- MODULE Trials -------------------------------
(***************************************************************************)
(* Every supported trial wave function as an explicit Fock-space vector.   *)
(* T is a record (deserialised from JSON) with field "kind" and the        *)
(* parameters of that kind; n = number of spatial orbitals, (nu, nd) the   *)
(* electron counts.  To stay in the integers a trial may be returned       *)
(* multiplied by a known constant: TrialScale(T) (1, 2 or 4).              *)
(*                                                                         *)
(* Conventions (derived from the library's closed formulas by Wick         *)
(* expansion and confirmed against explicit operator constructions):       *)
(*  sd     : |psi> = SDVec(tup, tdn)                 (RHF: tup = tdn)      *)
(*  ghf    : |psi> = GDetVec(C), C a (2n x N) real matrix                  *)
(*  noci   : sum_k c_k SDVec(tup_k, tdn_k), real                           *)
(*  dets   : sum_k c_k |A_k u B_k>   (alpha-string x beta-string)          *)
(*  cisd   : (1 + sum c1_ia E_ai + 1/2 sum c2_iajb E_ai E_bj)|0>,          *)
(*           E_ai = sum_s a+_{as} a_{is}, |0> = first nocc orbitals doubly *)
(*  ucisd  : (1 + sum c1A a+_a a_i + sum c1B b+_a b_i                      *)
(*              + 1/4 sum c2AA a+_a a_i a+_b a_j + 1/4 sum c2BB ...        *)
(*              + sum c2AB a+_a a_i b+_b b_j)|0_A 0_B>,                    *)
(*           b = beta operators in the beta MO basis moB (columns), the    *)
(*           beta reference = first nd columns of moB                      *)
(*  gcisd  : (1 + sum c1 g+_a g_i + 1/4 sum c2 g+_a g_i g+_b g_j)|0>,      *)
(*           g = spin-orbital operators in the GHF MO basis C (2n x 2n),   *)
(*           |0> = first N columns of C                                    *)
(*  thc    : cisd with c2_iajb = sum_PQ Xo[P][i] Xv[P][a] V[P][Q] Xo[Q][j] Xv[Q][b] *)
(***************************************************************************)
EXTENDS Fock

\* ucisd / gcisd carry an integer matrix M and a scale d with (M/d) orthogonal: the true MO
\* coefficients are M/d, and the vector returned below is the true one times TrialScale.
RECURSIVE Pow(_, _)
Pow(b, e) == IF e = 0 THEN 1 ELSE b * Pow(b, e - 1)
TrialScale(T, nu, nd) ==
               CASE T.kind = "cisd"  -> 2
                 [] T.kind = "thc"   -> 2
                 [] T.kind = "ucisd" -> 4 * Pow(T.d, 4 + nd)
                 [] T.kind = "gcisd" -> 4 * Pow(T.d, 4 + nu + nd)
                 [] OTHER            -> 1

Occ(k) == 1..k

\* ---------------------------------------------------------------- restricted CISD
RefRestricted(n, nocc) == Occ(nocc) \cup {n + i : i \in Occ(nocc)}
EAI(n, a, i) == {<<a, i, CONE>>, <<n + a, n + i, CONE>>}

CisdVec(n, nocc, c1, c2) ==
  LET N    == 2 * nocc
      nv   == n - nocc
      ref  == BasisVec(n, N, RefRestricted(n, nocc))
      OV   == Occ(nocc) \X (1..nv)
      \* sum_ia c_ia E_{a i}  as one operator
      op1(c) == PruneNZ(UNION {{<<nocc + ia[2], ia[1], CRe(c[ia[1]][ia[2]])>>,
                                <<n + nocc + ia[2], n + ia[1], CRe(c[ia[1]][ia[2]])>>} : ia \in OV})
      singles == OneBody(op1(c1), ref)
      doubles == VSum(LAMBDA jb :
                        LET vjb == OneBody(EAI(n, nocc + jb[2], jb[1]), ref)
                            cjb == [i \in Occ(nocc) |-> [a \in 1..nv |-> c2[i][a][jb[1]][jb[2]]]]
                        IN  OneBody(op1(cjb), vjb),
                      OV, n, N)
  IN  VAdd(VScale(2, ref), VAdd(VScale(2, singles), doubles))

ThcC2(nocc, nv, Xo, Xv, V) ==
  [i \in Occ(nocc) |-> [a \in 1..nv |-> [j \in Occ(nocc) |-> [b \in 1..nv |->
     ISum(LAMBDA PQ : Xo[PQ[1]][i] * Xv[PQ[1]][a] * V[PQ[1]][PQ[2]] * Xo[PQ[2]][j] * Xv[PQ[2]][b],
          (DOMAIN V) \X (DOMAIN V))]]]]

\* ---------------------------------------------------------------- UCISD
\* beta MO pair operator  b+_a b_i = sum_pq moB[p][a] moB[q][i] a+_{p dn} a_{q dn}
BetaMOOp(n, moB, coef) ==   \* coef: set of <<a, i, c>> over beta MO indices
  PruneNZ({<<n + pq[1], n + pq[2],
             CRe(ISum(LAMBDA t : t[3] * moB[pq[1]][t[1]] * moB[pq[2]][t[2]], coef))>>
           : pq \in (1..n) \X (1..n)})

UcisdVec(n, nu, nd, moB, d, c1A, c1B, c2AA, c2BB, c2AB) ==
  LET N   == nu + nd
      nvA == n - nu
      nvB == n - nd
      idU == [p \in 1..n |-> [k \in 1..n |-> IF p = k THEN CONE ELSE CZ]]
      mBc == [p \in 1..n |-> [k \in 1..n |-> CRe(moB[p][k])]]
      ref == SDVec(n, nu, nd, idU, mBc)
      OVA == Occ(nu) \X (1..nvA)
      OVB == Occ(nd) \X (1..nvB)
      opA(c) == PruneNZ({<<nu + ia[2], ia[1], CRe(c[ia[1]][ia[2]])>> : ia \in OVA})
      opB(c) == BetaMOOp(n, moB, {<<nd + ia[2], ia[1], c[ia[1]][ia[2]]>> : ia \in OVB})
      d2  == d * d
      d4  == d2 * d2
      s1A == OneBody(opA(c1A), ref)
      s1B == OneBody(opB(c1B), ref)
      dAA == VSum(LAMBDA jb :
                    LET vjb == OneBody({<<nu + jb[2], jb[1], CONE>>}, ref)
                        cjb == [i \in Occ(nu) |-> [a \in 1..nvA |-> c2AA[i][a][jb[1]][jb[2]]]]
                    IN  OneBody(opA(cjb), vjb), OVA, n, N)
      dBB == VSum(LAMBDA jb :
                    LET vjb == OneBody(BetaMOOp(n, moB, {<<nd + jb[2], jb[1], 1>>}), ref)
                        cjb == [i \in Occ(nd) |-> [a \in 1..nvB |-> c2BB[i][a][jb[1]][jb[2]]]]
                    IN  OneBody(opB(cjb), vjb), OVB, n, N)
      dAB == VSum(LAMBDA jb :
                    LET vjb == OneBody(BetaMOOp(n, moB, {<<nd + jb[2], jb[1], 1>>}), ref)
                        cjb == [i \in Occ(nu) |-> [a \in 1..nvA |-> c2AB[i][a][jb[1]][jb[2]]]]
                    IN  OneBody(opA(cjb), vjb), OVB, n, N)
  IN  VAdd(VAdd(VScale(4 * d4, VAdd(ref, s1A)), VScale(4 * d2, s1B)),
           VAdd(VAdd(VScale(d4, dAA), dBB), VScale(4 * d2, dAB)))

\* ---------------------------------------------------------------- GCISD
GhfMOOp(n, C, coef) ==      \* coef: set of <<a, i, c>> over GHF MO indices
  PruneNZ({<<PQ[1], PQ[2],
             CRe(ISum(LAMBDA t : t[3] * C[PQ[1]][t[1]] * C[PQ[2]][t[2]], coef))>>
           : PQ \in (1..(2 * n)) \X (1..(2 * n))})

GcisdVec(n, N, C, d, c1, c2) ==
  LET nv  == 2 * n - N
      Cc  == [P \in 1..(2 * n) |-> [k \in 1..(2 * n) |-> CRe(C[P][k])]]
      ref == GDetVec(n, N, Cc)
      OV  == Occ(N) \X (1..nv)
      op(c) == GhfMOOp(n, C, {<<N + ia[2], ia[1], c[ia[1]][ia[2]]>> : ia \in OV})
      s1  == OneBody(op(c1), ref)
      d2  == VSum(LAMBDA jb :
                    LET vjb == OneBody(GhfMOOp(n, C, {<<N + jb[2], jb[1], 1>>}), ref)
                        cjb == [i \in Occ(N) |-> [a \in 1..nv |-> c2[i][a][jb[1]][jb[2]]]]
                    IN  OneBody(op(cjb), vjb), OV, n, N)
  IN  VAdd(VAdd(VScale(4 * d * d * d * d, ref), VScale(4 * d * d, s1)), d2)

\* ---------------------------------------------------------------- determinant lists
DetConfig(n, d) == Range1(d.a) \cup {n + q : q \in Range1(d.b)}   \* occupied orbital lists
DetListVec(n, N, dets) ==
  TLCEval([S \in Configs(n, N) |->
     CRe(ISum(LAMBDA k : IF DetConfig(n, dets[k]) = S THEN dets[k].c ELSE 0, DOMAIN dets))])

NociVec(n, nu, nd, dets) ==
  VSum(LAMBDA k : VScale(dets[k].c, SDVec(n, nu, nd, dets[k].tup, dets[k].tdn)),
       DOMAIN dets, n, nu + nd)

\* ---------------------------------------------------------------- dispatch
TrialVec(n, nu, nd, T) ==
  CASE T.kind = "sd"    -> SDVec(n, nu, nd, T.tup, T.tdn)
    [] T.kind = "ghf"   -> GDetVec(n, nu + nd, T.C)
    [] T.kind = "noci"  -> NociVec(n, nu, nd, T.dets)
    [] T.kind = "dets"  -> DetListVec(n, nu + nd, T.dets)
    [] T.kind = "cisd"  -> CisdVec(n, nu, T.c1, T.c2)
    [] T.kind = "thc"   -> CisdVec(n, nu, T.c1, ThcC2(nu, n - nu, T.Xo, T.Xv, T.V))
    [] T.kind = "ucisd" -> UcisdVec(n, nu, nd, T.moB, T.d, T.c1A, T.c1B, T.c2AA, T.c2BB, T.c2AB)
    [] T.kind = "gcisd" -> GcisdVec(n, nu + nd, T.C, T.d, T.c1, T.c2)
=============================================================================
