------------------------------- MODULE Afqmc -------------------------------
(***************************************************************************)
(* Run-level specification of ad_afqmc: driver.afqmc -> sampler entry      *)
(* points -> propagator {propagate, orthonormalize, measure, local SR,     *)
(* global SR}.  One action per critical section of the code; the program   *)
(* counter `pc` names the statement about to execute.                      *)
(*                                                                         *)
(* Abstract state (one MPI rank; the collectives are in AfqmcRanks.tla):   *)
(*   stale      : the stored trial overlaps no longer belong to the stored *)
(*                walkers (walkers were modified after the last time the   *)
(*                overlaps were computed and stored)                       *)
(*   alive[w]   : weight of walker w is > 0                                *)
(*   shiftOK    : the population-control shift is a finite number          *)
(*   nKilled    : kills counted by the sampler in this call                *)
(*   keySplits  : PRNG key splits performed in this call                   *)
(*   shiftSrc   : where the population-control shift currently comes from: *)
(*                "carried" (left over from an earlier sampler call),      *)
(*                "estimate" (reset to e_estimate at entry), "step" (set by *)
(*                a propagation step), "relaxed" (mixed with a block energy)*)
(*   hist       : estimator-relevant actions of this call (for the         *)
(*                "all entry points compute the same estimator" property)  *)
(*                                                                         *)
(* Code anchors (ad_afqmc/...):                                            *)
(*   DriverInit        driver.py  afqmc(): init_prop_data, PRNGKey         *)
(*   DriverCall        driver.py  sampler_eq.propagate_phaseless / jvp /   *)
(*                                vjp / propagate_phaseless (option ladder)*)
(*   Optimize,Build    sampling.py propagate_phaseless_ad*: trial.optimize,*)
(*                                build_*_intermediates                    *)
(*   EntryRefresh      sampling.py "prop_data['overlaps'] = calc_overlap"  *)
(*                                at the top of every entry point          *)
(*   KeySplit          sampling.py _block_scan: random.split               *)
(*   Step              propagation.py propagator.propagate                 *)
(*   KillCount, BlockQR, BlockRefresh, Measure, ShiftRelax                 *)
(*                     sampling.py _block_scan, in this order              *)
(*   SRLocal,SRRefresh sampling.py _sr_block_scan                          *)
(*   Normalise         sampling.py n_killed_walkers /= (...)               *)
(*   DriverReduce      driver.py  Reduce/Bcast (eql) or Gather/bcast       *)
(*   DriverQR, DriverSave, DriverSRGlobal, DriverEstimate   driver.py      *)
(***************************************************************************)
EXTENDS AfqmcDefs

CONSTANTS
  Walkers,                    \* walker ids on this rank
  NEql, NBlocks,              \* driver: equilibration / sampling iterations
  NSteps, NEne, NSr,          \* sampling block structure (n_prop_steps, n_ene_blocks, n_sr_blocks)
  NStepsEql, NEneEql, NSrEql, \* equilibration block structure (the code fixes n_prop_steps = 50)
  AdModes, OrbRots, DoSrs,    \* option matrix explored (sets)
  SaveWalkers,                \* options["save_walkers"]
  Mutation                    \* "none", or a deliberately broken design for the negative configs

VARIABLES phase, iter, pc, opts, entry, bs, sr, ene, step,
          stale, alive, shiftOK, nKilled, keySplits, measures, hist, shiftSrc

vars == <<phase, iter, pc, opts, entry, bs, sr, ene, step,
          stale, alive, shiftOK, nKilled, keySplits, measures, hist, shiftSrc>>

N == Cardinality(Walkers)

OptionSpace == [ad_mode : AdModes, orbital_rotation : OrbRots, do_sr : DoSrs]

AllAlive == [w \in Walkers |-> TRUE]
AnyAlive(a) == \E w \in Walkers : a[w]

Init ==
  /\ phase = "init" /\ iter = 0 /\ pc = "d_init"
  /\ opts \in OptionSpace
  /\ entry = "plain" /\ bs = [steps |-> 0, ene |-> 0, sr |-> 0]
  /\ sr = 0 /\ ene = 0 /\ step = 0
  /\ stale = TRUE /\ alive = AllAlive /\ shiftOK = TRUE
  /\ nKilled = 0 /\ keySplits = 0 /\ measures = 0 /\ hist = <<>> /\ shiftSrc = "estimate"

\* ------------------------------------------------------------------ driver
DriverInit ==                      \* init_prop_data: walkers, weights = 1, overlaps of those walkers
  /\ pc = "d_init"
  /\ stale' = FALSE /\ alive' = AllAlive /\ shiftOK' = TRUE
  /\ IF NEql > 0 THEN phase' = "eql" ELSE phase' = "sampling"
  /\ iter' = 1 /\ pc' = "d_call"
  /\ shiftSrc' = "estimate"
  /\ UNCHANGED <<opts, entry, bs, sr, ene, step, nKilled, keySplits, measures, hist>>

DriverCall ==
  /\ pc = "d_call"
  /\ LET e == IF phase = "eql" THEN "plain" ELSE Select(opts)
         b == IF phase = "eql" THEN [steps |-> NStepsEql, ene |-> NEneEql, sr |-> NSrEql]
                               ELSE [steps |-> NSteps, ene |-> NEne, sr |-> NSr]
     IN /\ entry' = e /\ bs' = b
        /\ pc' = IF HasOptimize(e) THEN "opt" ELSE IF HasBuild(e) THEN "build" ELSE "entry_refresh"
  /\ sr' = 1 /\ ene' = 1 /\ step' = 1
  /\ keySplits' = 0 /\ measures' = 0 /\ hist' = <<>>
  /\ shiftSrc' = "carried"
  /\ UNCHANGED <<phase, iter, opts, stale, alive, shiftOK, nKilled>>

\* ------------------------------------------------------------------ sampler
Optimize ==
  /\ pc = "opt" /\ pc' = "build"
  /\ UNCHANGED <<phase, iter, opts, entry, bs, sr, ene, step, stale, alive, shiftOK, nKilled, keySplits, measures, hist, shiftSrc>>

Build ==
  /\ pc = "build" /\ pc' = "entry_refresh"
  /\ UNCHANGED <<phase, iter, opts, entry, bs, sr, ene, step, stale, alive, shiftOK, nKilled, keySplits, measures, hist, shiftSrc>>

EntryRefresh ==
  /\ pc = "entry_refresh"
  /\ stale' = IF Mutation = "no_entry_refresh" THEN stale ELSE FALSE
  /\ nKilled' = 0
  /\ pc' = "key"
  /\ shiftSrc' = IF Mutation = "no_shift_reset" THEN shiftSrc ELSE "estimate"
  /\ UNCHANGED <<phase, iter, opts, entry, bs, sr, ene, step, alive, shiftOK, keySplits, measures, hist>>

KeySplit ==
  /\ pc = "key"
  /\ keySplits' = keySplits + 1
  /\ step' = 1
  /\ pc' = IF bs.steps > 0 THEN "step" ELSE "kill"
  /\ hist' = Append(hist, "key")
  /\ UNCHANGED <<phase, iter, opts, entry, bs, sr, ene, stale, alive, shiftOK, nKilled, measures, shiftSrc>>

(***************************************************************************)
(* One propagation step.  It DIVIDES by the stored overlaps: this is the   *)
(* read the coherence property is about.  It stores the overlaps of the    *)
(* propagated walkers, may kill any subset of the walkers that are alive   *)
(* (the weight rule itself is in Weights.tla) and recomputes the shift     *)
(* from the total weight.                                                  *)
(***************************************************************************)
Step ==
  /\ pc = "step"
  /\ stale' = FALSE
  /\ \E dies \in SUBSET {w \in Walkers : alive[w]} :
        alive' = [w \in Walkers |-> alive[w] /\ w \notin dies]
  /\ shiftOK' = AnyAlive(alive')
  /\ IF step < bs.steps THEN step' = step + 1 /\ pc' = "step"
                        ELSE step' = step /\ pc' = "kill"
  /\ hist' = Append(hist, "step")
  /\ shiftSrc' = "step"
  /\ UNCHANGED <<phase, iter, opts, entry, bs, sr, ene, nKilled, keySplits, measures>>

KillCount ==
  /\ pc = "kill"
  /\ nKilled' = nKilled + Cardinality({w \in Walkers : ~alive[w]})
  /\ pc' = "qr"
  /\ hist' = Append(hist, "kill")
  /\ UNCHANGED <<phase, iter, opts, entry, bs, sr, ene, step, stale, alive, shiftOK, keySplits, measures, shiftSrc>>

BlockQR ==
  /\ pc = "qr"
  /\ stale' = TRUE                      \* walkers rescaled by R^-1, stored overlaps untouched
  /\ pc' = "refresh"
  /\ hist' = Append(hist, "qr")
  /\ UNCHANGED <<phase, iter, opts, entry, bs, sr, ene, step, alive, shiftOK, nKilled, keySplits, measures, shiftSrc>>

BlockRefresh ==
  /\ pc = "refresh"
  /\ stale' = IF Mutation = "no_block_refresh" THEN stale ELSE FALSE
  /\ pc' = "measure"
  /\ hist' = Append(hist, "refresh")
  /\ UNCHANGED <<phase, iter, opts, entry, bs, sr, ene, step, alive, shiftOK, nKilled, keySplits, measures, shiftSrc>>

Measure ==
  /\ pc = "measure"
  /\ measures' = measures + 1
  /\ pc' = "shift"
  /\ hist' = Append(hist, "measure")
  /\ UNCHANGED <<phase, iter, opts, entry, bs, sr, ene, step, stale, alive, shiftOK, nKilled, keySplits, shiftSrc>>

ShiftRelax ==                           \* shift = 0.9 shift + 0.1 block_energy (block weight > 0 needed)
  /\ pc = "shift"
  /\ hist' = Append(hist, "shift")
  /\ IF ene < bs.ene
     THEN ene' = ene + 1 /\ pc' = "key" /\ UNCHANGED sr
     ELSE /\ UNCHANGED <<ene, sr>>
          /\ pc' = IF HasSR(entry) THEN "sr" ELSE "norm"
  /\ shiftSrc' = "relaxed"
  /\ UNCHANGED <<phase, iter, opts, entry, bs, step, stale, alive, shiftOK, nKilled, keySplits, measures>>

SRLocal ==
  /\ pc = "sr"
  /\ keySplits' = keySplits + 1
  /\ stale' = TRUE                      \* the population is replaced by copies; stored overlaps are not permuted
  /\ alive' = IF AnyAlive(alive) THEN AllAlive ELSE alive
  /\ pc' = "sr_refresh"
  /\ hist' = Append(hist, "sr")
  /\ UNCHANGED <<phase, iter, opts, entry, bs, sr, ene, step, shiftOK, nKilled, measures, shiftSrc>>

SRRefresh ==
  /\ pc = "sr_refresh"
  /\ stale' = IF Mutation = "no_sr_refresh" THEN stale ELSE FALSE
  /\ hist' = Append(hist, "sr_refresh")
  /\ IF sr < bs.sr THEN sr' = sr + 1 /\ ene' = 1 /\ pc' = "key"
                   ELSE UNCHANGED <<sr, ene>> /\ pc' = "norm"
  /\ UNCHANGED <<phase, iter, opts, entry, bs, step, alive, shiftOK, nKilled, keySplits, measures, shiftSrc>>

Normalise ==                            \* n_killed_walkers /= n_sr_blocks * n_ene_blocks * n_walkers
  /\ pc = "norm" /\ pc' = "ret"
  /\ UNCHANGED <<phase, iter, opts, entry, bs, sr, ene, step, stale, alive, shiftOK, nKilled, keySplits, measures, hist, shiftSrc>>

Return ==
  /\ pc = "ret" /\ pc' = "d_reduce"
  /\ UNCHANGED <<phase, iter, opts, entry, bs, sr, ene, step, stale, alive, shiftOK, nKilled, keySplits, measures, hist, shiftSrc>>

\* ------------------------------------------------------------------ driver, after the sampler call
DriverReduce ==
  /\ pc = "d_reduce" /\ pc' = "d_qr"
  /\ UNCHANGED <<phase, iter, opts, entry, bs, sr, ene, step, stale, alive, shiftOK, nKilled, keySplits, measures, hist, shiftSrc>>

DriverQR ==
  /\ pc = "d_qr"
  /\ stale' = TRUE
  /\ pc' = IF phase = "sampling" /\ SaveWalkers THEN "d_save" ELSE "d_sr"
  /\ UNCHANGED <<phase, iter, opts, entry, bs, sr, ene, step, alive, shiftOK, nKilled, keySplits, measures, hist, shiftSrc>>

DriverSave ==
  /\ pc = "d_save" /\ pc' = "d_sr"
  /\ UNCHANGED <<phase, iter, opts, entry, bs, sr, ene, step, stale, alive, shiftOK, nKilled, keySplits, measures, hist, shiftSrc>>

DriverSRGlobal ==
  /\ pc = "d_sr"
  /\ stale' = TRUE
  /\ alive' = IF AnyAlive(alive) THEN AllAlive ELSE alive
  /\ pc' = "d_est"
  /\ UNCHANGED <<phase, iter, opts, entry, bs, sr, ene, step, shiftOK, nKilled, keySplits, measures, hist, shiftSrc>>

DriverEstimate ==                       \* e_estimate = 0.9 e_estimate + 0.1 block energy; next iteration
  /\ pc = "d_est"
  /\ IF phase = "eql"
     THEN IF iter < NEql THEN iter' = iter + 1 /\ pc' = "d_call" /\ UNCHANGED phase
          ELSE IF NBlocks > 0 THEN phase' = "sampling" /\ iter' = 1 /\ pc' = "d_call"
               ELSE phase' = "post" /\ iter' = iter /\ pc' = "d_done"
     ELSE IF iter < NBlocks THEN iter' = iter + 1 /\ pc' = "d_call" /\ UNCHANGED phase
          ELSE phase' = "post" /\ iter' = iter /\ pc' = "d_done"
  /\ UNCHANGED <<opts, entry, bs, sr, ene, step, stale, alive, shiftOK, nKilled, keySplits, measures, hist, shiftSrc>>

Done == pc = "d_done" /\ UNCHANGED vars

Next == \/ DriverInit \/ DriverCall \/ Optimize \/ Build \/ EntryRefresh \/ KeySplit \/ Step
        \/ KillCount \/ BlockQR \/ BlockRefresh \/ Measure \/ ShiftRelax \/ SRLocal \/ SRRefresh
        \/ Normalise \/ Return \/ DriverReduce \/ DriverQR \/ DriverSave \/ DriverSRGlobal
        \/ DriverEstimate \/ Done

Spec == Init /\ [][Next]_vars /\ WF_vars(Next)

(***************************************************************************)
(* Properties                                                              *)
(***************************************************************************)
\* C08: whenever a propagation step is about to divide by the stored overlaps they are coherent
ReadCoherent == pc = "step" => ~stale

\* C09 (population level): dead walkers stay dead except at a reconfiguration
DeadStaysDead ==
  [][\A w \in Walkers : (~alive[w] /\ pc \notin {"sr", "d_sr"}) => ~alive'[w]]_vars
ShiftFiniteWhileAlive == AnyAlive(alive) => shiftOK
KilledFraction ==
  pc = "ret" => /\ nKilled >= 0
                /\ nKilled <= bs.sr * bs.ene * N

\* C12: every entry point executes the canonical estimator schedule of the requested block
\* structure (so all entry points asked for the same structure compute the same estimator), and the
\* option ladder always selects a defined entry point
SameEstimator == pc = "ret" => hist = Expected(bs, HasSR(entry))
SelectTotal   == Select(opts) \in Entries
KeyDiscipline == pc = "ret" =>
                   keySplits = (IF HasSR(entry) THEN bs.sr * bs.ene + bs.sr ELSE bs.ene)
MeasureCount  == pc = "ret" =>
                   measures = (IF HasSR(entry) THEN bs.sr * bs.ene ELSE bs.ene)

\* every sampler call (re)initialises the population-control shift from the running estimate before its first
\* propagation step: a shift carried over from an earlier call is never used
ShiftInitialised == pc = "step" => shiftSrc # "carried"

TypeOK ==
  /\ phase \in {"init", "eql", "sampling", "post"}
  /\ stale \in BOOLEAN /\ shiftOK \in BOOLEAN
  /\ alive \in [Walkers -> BOOLEAN]
  /\ entry \in Entries

Terminates == <>(pc = "d_done")
=============================================================================
