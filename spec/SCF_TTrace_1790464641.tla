---- MODULE SCF_TTrace_1790464641 ----
EXTENDS Sequences, TLCExt, Toolbox, SCF, Naturals, TLC

_expression ==
    LET SCF_TEExpression == INSTANCE SCF_TEExpression
    IN SCF_TEExpression!expression
----

_trace ==
    LET SCF_TETrace == INSTANCE SCF_TETrace
    IN SCF_TETrace!trace
----

_inv ==
    ~(
        TLCGet("level") = Len(_TETrace)
        /\
        inst = ([s |-> 1, hnu |-> <<<<-1, 0>>, <<0, -1>>>>, hnd |-> <<<<-1, 0>>, <<0, -1>>>>, nup |-> 2, ndn |-> 1, Mu |-> <<<<0, -1>>, <<1, 0>>>>, Md |-> <<<<0, -1>>, <<1, 0>>>>, norb |-> 2, kind |-> "uhf", chol |-> <<<<<<1, 0>>, <<0, 0>>>>, <<<<-1, 0>>, <<0, -1>>>>>>, id |-> 0])
        /\
        idx = (0)
        /\
        done = (TRUE)
    )
----

_init ==
    /\ done = _TETrace[1].done
    /\ idx = _TETrace[1].idx
    /\ inst = _TETrace[1].inst
----

_next ==
    /\ \E i,j \in DOMAIN _TETrace:
        /\ \/ /\ j = i + 1
              /\ i = TLCGet("level")
        /\ done  = _TETrace[i].done
        /\ done' = _TETrace[j].done
        /\ idx  = _TETrace[i].idx
        /\ idx' = _TETrace[j].idx
        /\ inst  = _TETrace[i].inst
        /\ inst' = _TETrace[j].inst

\* Uncomment the ASSUME below to write the states of the error trace
\* to the given file in Json format. Note that you can pass any tuple
\* to `JsonSerialize`. For example, a sub-sequence of _TETrace.
    \* ASSUME
    \*     LET J == INSTANCE Json
    \*         IN J!JsonSerialize("SCF_TTrace_1790464641.json", _TETrace)

=============================================================================

 Note that you can extract this module `SCF_TEExpression`
  to a dedicated file to reuse `expression` (the module in the 
  dedicated `SCF_TEExpression.tla` file takes precedence 
  over the module `SCF_TEExpression` below).

---- MODULE SCF_TEExpression ----
EXTENDS Sequences, TLCExt, Toolbox, SCF, Naturals, TLC

expression == 
    [
        \* To hide variables of the `SCF` spec from the error trace,
        \* remove the variables below.  The trace will be written in the order
        \* of the fields of this record.
        done |-> done
        ,idx |-> idx
        ,inst |-> inst
        
        \* Put additional constant-, state-, and action-level expressions here:
        \* ,_stateNumber |-> _TEPosition
        \* ,_doneUnchanged |-> done = done'
        
        \* Format the `done` variable as Json value.
        \* ,_doneJson |->
        \*     LET J == INSTANCE Json
        \*     IN J!ToJson(done)
        
        \* Lastly, you may build expressions over arbitrary sets of states by
        \* leveraging the _TETrace operator.  For example, this is how to
        \* count the number of times a spec variable changed up to the current
        \* state in the trace.
        \* ,_doneModCount |->
        \*     LET F[s \in DOMAIN _TETrace] ==
        \*         IF s = 1 THEN 0
        \*         ELSE IF _TETrace[s].done # _TETrace[s-1].done
        \*             THEN 1 + F[s-1] ELSE F[s-1]
        \*     IN F[_TEPosition - 1]
    ]

=============================================================================



Parsing and semantic processing can take forever if the trace below is long.
 In this case, it is advised to uncomment the module below to deserialize the
 trace from a generated binary file.

\*
\*---- MODULE SCF_TETrace ----
\*EXTENDS IOUtils, SCF, TLC
\*
\*trace == IODeserialize("SCF_TTrace_1790464641.bin", TRUE)
\*
\*=============================================================================
\*

---- MODULE SCF_TETrace ----
EXTENDS SCF, TLC

trace == 
    <<
    ([inst |-> [hnu |-> <<<<-1, 0>>, <<0, -1>>>>],idx |-> 0,done |-> FALSE]),
    ([inst |-> [s |-> 1, hnu |-> <<<<-1, 0>>, <<0, -1>>>>, hnd |-> <<<<-1, 0>>, <<0, -1>>>>, nup |-> 2, ndn |-> 1, Mu |-> <<<<0, -1>>, <<1, 0>>>>, Md |-> <<<<0, -1>>, <<1, 0>>>>, norb |-> 2, kind |-> "uhf", chol |-> <<<<<<1, 0>>, <<0, 0>>>>, <<<<-1, 0>>, <<0, -1>>>>>>, id |-> 0],idx |-> 0,done |-> TRUE])
    >>
----


=============================================================================

---- CONFIG SCF_TTrace_1790464641 ----
CONSTANTS
    TNORB = 2
    TNELECS <- Nel2
    TLSET = "few"

INVARIANT
    _inv

CHECK_DEADLOCK
    \* CHECK_DEADLOCK off because of PROPERTY or INVARIANT above.
    FALSE

INIT
    _init

NEXT
    _next

CONSTANT
    _TETrace <- _trace

ALIAS
    _expression
=============================================================================
\* Generated on Sat Sep 26 23:17:23 UTC 2026