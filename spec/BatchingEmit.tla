---------------------------- MODULE BatchingEmit ----------------------------
EXTENDS BatchingDefs, SequencesExt

(***************************************************************************)
(* Spec -> code: requests (N, list of seeds) come from the harness; the    *)
(* spec answers with the divisors of N and, per seed, a permutation chosen *)
(* from Perms(N) (all of them when all = TRUE).                            *)
(***************************************************************************)
Reqs == ndJsonDeserialize(IOEnv.BATCH_REQ)
VARIABLES idx, done
evars == <<idx, done>>
EInit == idx \in DOMAIN Reqs /\ done = FALSE
PermSeq(k) == SetToSeq(Perms(k))
Emit == /\ ~done /\ done' = TRUE /\ UNCHANGED idx
        /\ LET r == Reqs[idx]
               ps == PermSeq(r.n)
               pick == IF r.all THEN ps ELSE [i \in 1..Len(r.picks) |-> ps[(r.picks[i] % Len(ps)) + 1]]
           IN ndJsonSerialize(IOEnv.BATCH_OUT \o "/" \o ToString(r.id) \o ".json",
                <<[id |-> r.id, n |-> r.n, divisors |-> Divisors(r.n), perms |-> pick,
                   expect |-> [i \in 1..Len(pick) |-> Compose(Batched(F, Id(r.n), 1), pick[i])]]>>)
ESpec == EInit /\ [][Emit]_evars
=============================================================================
