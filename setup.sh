#!/bin/sh
# offline setup: syntax-check every specification module; nothing is downloaded or compiled
cd "$(dirname "$0")" || exit 1
mkdir -p evidence replay
rc=0
for f in spec/*.tla; do
  out=$(cd spec && java -cp /opt/veriftools/tla/tla2tools.jar:/opt/veriftools/tla/CommunityModules-deps.jar tla2sany.SANY "$(basename "$f")" 2>&1)
  if echo "$out" | grep -qE "Could not parse|\*\*\* Errors|Semantic errors|Fatal errors"; then echo "SANY FAILED: $f"; echo "$out" | tail -15; rc=1; fi
done
/venv/bin/python -c "import jax, numpy, scipy, h5py, pyscf" || rc=1
[ $rc -eq 0 ] && echo "setup ok"
exit $rc
